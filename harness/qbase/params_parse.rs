// Kani harnesses compiled *inside* qbase::param::io (overlay injection, cfg(kani) only).
// Property C18, clause "all mandatory parameters are present, every value is legal for the peer's
// role ... otherwise the handshake fails with a transport-parameter error" — checked on the REAL
// entry point `Parameters::<R>::parse_from_bytes` (what qconnection/src/tls.rs hands the peer's
// TLS extension to).
//
// Cost cut (same technique as harness/qbase/frames_c03.rs / params_io.rs): nom's generic
// `be_varint` is replaced by a loop-free byte-arithmetic model; c18_varint_model_equivalence proves
// the model equal to the real parser (value, remaining slice, Needed) on every input <= 16 bytes.
// Blob *shapes* (number of parameters, value lengths) are concrete or small-range, ids are chosen
// from a small table, value bytes are symbolic.
//
// Malformed VALUES: the whole function costs minutes per symbolic parameter, so the per-value
// decoding is decided piecewise on the real pieces (be_parameter_value + handle_nom_error + the
// `assert!(remain.is_empty())` glue of io.rs:173-175, mirrored by `glue()`), and each suspected
// pre-authentication remote panic (DESIGN.md §6 #1-#3) additionally has a CONCRETE witness through
// the real `parse_from_bytes` (`c18_parse_witness_*`, no symbolic input: replayed natively as is).
// `*_any` and `*_witness_*` harnesses are registered `pending`; the `*_wf` twins assume the trigger
// away and pass.
use super::*;
use crate::{
    error::ErrorKind,
    param::core::ClientParameters,
};

pub(crate) fn c18_stub_fmt_write(
    _o: &mut dyn core::fmt::Write,
    _a: core::fmt::Arguments<'_>,
) -> core::fmt::Result {
    Ok(())
}
pub(crate) fn c18_stub_fmt_format(_a: core::fmt::Arguments<'_>) -> String {
    String::new()
}
pub(crate) fn c18_stub_tr_interest(
    _c: &'static tracing::callsite::DefaultCallsite,
) -> tracing::subscriber::Interest {
    tracing::subscriber::Interest::never()
}
pub(crate) fn c18_stub_tr_enabled(
    _m: &tracing::Metadata<'static>,
    _i: tracing::subscriber::Interest,
) -> bool {
    false
}
pub(crate) fn c18_stub_tr_dispatch<'a: 'a>(
    _m: &'static tracing::Metadata<'static>,
    _f: &'a tracing::field::ValueSet<'_>,
) {
}
/// Panic-message formatting of slice-index failures dominates symbolic execution; the panic stays.
pub(crate) fn c18_stub_slice_index_fail(_s: usize, _e: usize, _l: usize) -> ! {
    panic!("slice index out of range")
}

/// RFC 9000 §16 variable-length integer, loop-free (the stub for `crate::varint::be_varint`).
pub(crate) fn c18_model_be_varint(input: &[u8]) -> nom::IResult<&[u8], VarInt> {
    if input.is_empty() {
        return Err(nom::Err::Incomplete(nom::Needed::new(1)));
    }
    let b0 = input[0];
    let n = 1usize << (b0 >> 6);
    if input.len() < n {
        return Err(nom::Err::Incomplete(nom::Needed::new(n - input.len())));
    }
    let mut v = (b0 & 0x3f) as u64;
    if n >= 2 {
        v = (v << 8) | input[1] as u64;
    }
    if n >= 4 {
        v = (v << 8) | input[2] as u64;
        v = (v << 8) | input[3] as u64;
    }
    if n == 8 {
        v = (v << 8) | input[4] as u64;
        v = (v << 8) | input[5] as u64;
        v = (v << 8) | input[6] as u64;
        v = (v << 8) | input[7] as u64;
    }
    // SAFETY: v < 2^62 (6 + 7*8 bits)
    Ok((&input[n..], unsafe { VarInt::from_u64_unchecked(v) }))
}

/// The be_varint model equals the real nom parser (value, remaining slice, number of missing
/// bytes) on every byte string of <= 16 bytes.
#[kani::proof]
#[kani::unwind(10)]
fn c18_varint_model_equivalence() {
    let arr: [u8; 16] = kani::any();
    let len: usize = kani::any();
    kani::assume(len <= 16);
    let input = &arr[..len];
    match (be_varint(input), c18_model_be_varint(input)) {
        (Ok((r1, v1)), Ok((r2, v2))) => {
            assert!(v1 == v2, "same value");
            assert!(r1.len() == r2.len() && r1.as_ptr() == r2.as_ptr(), "same remaining slice");
            kani::cover!(r1.len() == 8 && len == 16);
        }
        (Err(nom::Err::Incomplete(n1)), Err(nom::Err::Incomplete(n2))) => {
            assert!(n1 == n2, "same number of missing bytes");
            kani::cover!(len == 7);
            kani::cover!(len == 0);
        }
        (a, b) => {
            core::mem::forget(a);
            core::mem::forget(b);
            panic!("model and real be_varint disagree")
        }
    }
}

// ---------------------------------------------------------------------------------------------
// mandatory ids / role-inappropriate ids / unknown ids, through parse_from_bytes

/// ids a parameter of the blob may carry (wire value = 1 byte):
///   0x0f initial_source_connection_id (mandatory for both roles; cid)
///   0x00 original_destination_connection_id (mandatory in server sets, FORBIDDEN in client sets; cid)
///   0x04 initial_max_data (optional; varint)
///   0x21 an unassigned id (must be skipped)
const ID_TABLE: [u8; 4] = [0x0f, 0x00, 0x04, 0x21];

struct Blob {
    bytes: [u8; 6],
    n: usize,      // number of parameters (0..=2), each `id 01 v`
    ids: [u8; 2],  // wire ids
    vals: [u8; 2], // the one value byte of each
}

fn any_blob() -> Blob {
    let n: usize = kani::any();
    kani::assume(n <= 2);
    let k0: usize = kani::any();
    let k1: usize = kani::any();
    kani::assume(k0 < 4 && k1 < 4);
    let vals: [u8; 2] = kani::any();
    let ids = [ID_TABLE[k0], ID_TABLE[k1]];
    Blob { bytes: [ids[0], 1, vals[0], ids[1], 1, vals[1]], n, ids, vals }
}

impl Blob {
    fn has(&self, id: u8) -> bool {
        (self.n >= 1 && self.ids[0] == id) || (self.n >= 2 && self.ids[1] == id)
    }
    /// the value byte of the LAST parameter with this id (a later duplicate replaces an earlier one)
    fn last_val(&self, id: u8) -> u8 {
        if self.n >= 2 && self.ids[1] == id { self.vals[1] } else { self.vals[0] }
    }
    /// an initial_max_data value of one byte whose varint prefix announces 2/4/8 bytes is truncated
    fn truncated_varint(&self) -> bool {
        (self.n >= 1 && self.ids[0] == 0x04 && self.vals[0] >= 0x40)
            || (self.n >= 2 && self.ids[1] == 0x04 && self.vals[1] >= 0x40)
    }
}

fn is_cid1(c: Option<ConnectionId>, v: u8) -> bool {
    match c {
        Some(c) => c.len == 1 && c.bytes[0] == v,
        None => false,
    }
}

/// C18 (server side: the peer is a client): `ClientParameters::parse_from_bytes` on every blob of
/// 0..2 one-byte-valued parameters with ids from ID_TABLE:
/// Ok  <=>  initial_source_connection_id present  &&  no server-only id  &&  no truncated value;
/// every Err is a QuicError of kind TransportParameter; Ok => the set holds exactly the declared
/// values (unknown id skipped, absent optional parameter reads as its default).
#[kani::proof]
#[kani::unwind(10)]
#[kani::stub(crate::varint::be_varint, c18_model_be_varint)]
#[kani::stub(core::fmt::write, c18_stub_fmt_write)]
#[kani::stub(alloc::fmt::format, c18_stub_fmt_format)]
#[kani::stub(core::slice::index::slice_index_fail, c18_stub_slice_index_fail)]
#[kani::stub(tracing::callsite::DefaultCallsite::interest, c18_stub_tr_interest)]
#[kani::stub(tracing::__macro_support::__is_enabled, c18_stub_tr_enabled)]
#[kani::stub(tracing::Event::dispatch, c18_stub_tr_dispatch)]
fn c18_parse_required_client() {
    let b = any_blob();
    let r = ClientParameters::parse_from_bytes(&b.bytes[..3 * b.n]);
    let want_ok = b.has(0x0f) && !b.has(0x00) && !b.truncated_varint();
    kani::cover!(want_ok && b.has(0x21), "accepted, unknown id skipped");
    kani::cover!(!b.has(0x0f) && !b.has(0x00) && !b.truncated_varint(), "mandatory id missing");
    kani::cover!(b.has(0x00) && b.has(0x0f), "server-only id in a client's set");
    kani::cover!(b.n == 0, "empty extension");
    match &r {
        Ok(p) => {
            assert!(want_ok, "accepted only with the mandatory id, role-legal ids, complete values");
            assert!(is_cid1(p.get::<ConnectionId>(ParameterId::InitialSourceConnectionId), b.last_val(0x0f)));
            assert!(!p.contains(ParameterId::OriginalDestinationConnectionId));
            if b.has(0x04) {
                assert!(p.get::<u64>(ParameterId::InitialMaxData) == Some(b.last_val(0x04) as u64));
            } else {
                assert!(!p.contains(ParameterId::InitialMaxData));
                assert!(p.get::<u64>(ParameterId::InitialMaxData) == Some(0));
            }
        }
        Err(e) => {
            assert!(!want_ok, "a legal, complete set is accepted");
            assert!(e.kind() == ErrorKind::TransportParameter);
        }
    }
    core::mem::forget(r);
}

/// C18 (client side: the peer is a server): `ServerParameters::parse_from_bytes`:
/// Ok <=> initial_source_connection_id AND original_destination_connection_id present && no
/// truncated value; every Err is of kind TransportParameter.
#[kani::proof]
#[kani::unwind(10)]
#[kani::stub(crate::varint::be_varint, c18_model_be_varint)]
#[kani::stub(core::fmt::write, c18_stub_fmt_write)]
#[kani::stub(alloc::fmt::format, c18_stub_fmt_format)]
#[kani::stub(core::slice::index::slice_index_fail, c18_stub_slice_index_fail)]
#[kani::stub(tracing::callsite::DefaultCallsite::interest, c18_stub_tr_interest)]
#[kani::stub(tracing::__macro_support::__is_enabled, c18_stub_tr_enabled)]
#[kani::stub(tracing::Event::dispatch, c18_stub_tr_dispatch)]
fn c18_parse_required_server() {
    let b = any_blob();
    let r = ServerParameters::parse_from_bytes(&b.bytes[..3 * b.n]);
    let want_ok = b.has(0x0f) && b.has(0x00);
    kani::cover!(want_ok, "both mandatory ids present");
    kani::cover!(b.has(0x0f) && !b.has(0x00) && !b.truncated_varint(), "original_destination_connection_id missing");
    kani::cover!(b.has(0x00) && !b.has(0x0f) && !b.truncated_varint(), "initial_source_connection_id missing");
    match &r {
        Ok(p) => {
            assert!(want_ok, "accepted only with both mandatory ids");
            assert!(is_cid1(p.get::<ConnectionId>(ParameterId::InitialSourceConnectionId), b.last_val(0x0f)));
            assert!(is_cid1(p.get::<ConnectionId>(ParameterId::OriginalDestinationConnectionId), b.last_val(0x00)));
        }
        Err(e) => {
            assert!(!want_ok);
            assert!(e.kind() == ErrorKind::TransportParameter);
        }
    }
    core::mem::forget(r);
}

// ---------------------------------------------------------------------------------------------
// malformed values: a transport-parameter error, never a panic

/// Mirrors io.rs:173-175, the only lines between the framing of a parameter and `set`:
///     let (remain, v) = be_parameter_value(value, id).map_err(|e| handle_nom_error(value, e))?;
///     assert!(remain.is_empty(), "Parameter value should consume all data");
/// followed by the conversion every `?` in parse_from_bytes applies (param::Error -> QuicError).
fn glue(value: &[u8], id: ParameterId) -> Result<ParameterValue, QuicError> {
    let (remain, v) = be_parameter_value(value, id)
        .map_err(|nom_error| QuicError::from(handle_nom_error(value, nom_error)))?;
    assert!(remain.is_empty(), "Parameter value should consume all data (io.rs:175)");
    Ok(v)
}

/// RFC 9000 §16 varint of a value slice, written independently: (value, encoded length).
fn spec_varint(b: &[u8]) -> Option<(u64, usize)> {
    if b.is_empty() {
        return None;
    }
    let k = 1usize << (b[0] >> 6);
    if b.len() < k {
        return None;
    }
    let mut v = (b[0] & 0x3f) as u64;
    let mut i = 1;
    while i < k {
        v = (v << 8) | b[i] as u64;
        i += 1;
    }
    Some((v, k))
}

/// A varint-typed parameter (initial_max_data as representative: be_parameter_value only reads
/// id.value_type()) with a value of 0..=N bytes.
fn value_varint<const N: usize>(exclude_trigger: bool) {
    let arr: [u8; N] = kani::any();
    let len: usize = kani::any();
    kani::assume(len <= N);
    let value = &arr[..len];
    let spec = spec_varint(value);
    if exclude_trigger {
        // trigger of defect #2: declared length larger than the varint's own encoding
        kani::assume(len == 0 || len <= (1usize << (arr[0] >> 6)));
    }
    kani::cover!(len == N - 1 && spec.is_some(), "8-byte value decoded");
    kani::cover!(len == 2 && spec.is_some(), "2-byte value decoded");
    match glue(value, ParameterId::InitialMaxData) {
        Ok(ParameterValue::VarInt(v)) => assert!(spec == Some((v.into_u64(), len)), "decoded value == RFC 9000 varint, value fills its length"),
        Ok(_) => assert!(false, "numeric id decoded to a non-numeric value"),
        Err(e) => {
            kani::cover!(len == 0, "empty value is an error, not a panic");
            assert!(spec.is_none(), "only a truncated value is refused");
            assert!(e.kind() == ErrorKind::TransportParameter);
            core::mem::forget(e);
        }
    }
}

/// C18 (pending, defect #2): a VarInt-typed parameter with ANY value of <= 9 bytes is decoded or
/// rejected with TRANSPORT_PARAMETER_ERROR. Fails: surplus bytes hit `assert!(remain.is_empty())`
/// (smallest failing value: `00 00`, i.e. the blob `04 02 00 00`).
#[kani::proof]
#[kani::unwind(10)]
#[kani::stub(core::fmt::write, c18_stub_fmt_write)]
#[kani::stub(alloc::fmt::format, c18_stub_fmt_format)]
#[kani::stub(core::slice::index::slice_index_fail, c18_stub_slice_index_fail)]
fn c18_value_varint_any() {
    value_varint::<9>(false);
}

/// Twin: value no longer than its own varint encoding.
#[kani::proof]
#[kani::unwind(10)]
#[kani::stub(core::fmt::write, c18_stub_fmt_write)]
#[kani::stub(alloc::fmt::format, c18_stub_fmt_format)]
#[kani::stub(core::slice::index::slice_index_fail, c18_stub_slice_index_fail)]
fn c18_value_varint_wf() {
    value_varint::<9>(true);
}

fn value_flag(exclude_trigger: bool) {
    let arr: [u8; 2] = kani::any();
    let len: usize = kani::any();
    kani::assume(len <= 2);
    if exclude_trigger {
        kani::assume(len == 0);
    }
    let r = glue(&arr[..len], ParameterId::DisableActiveMigration);
    kani::cover!(len == 0, "empty flag");
    match &r {
        Ok(v) => assert!(matches!(v, ParameterValue::True) && len == 0, "only the empty value is a flag"),
        Err(e) => assert!(len > 0 && e.kind() == ErrorKind::TransportParameter),
    }
    core::mem::forget(r);
}

/// C18 (pending, defect #2): a flag parameter (disable_active_migration, grease_quic_bit) with a
/// non-empty value is rejected with TRANSPORT_PARAMETER_ERROR. Fails at io.rs:175 (smallest
/// failing value: one arbitrary byte, i.e. the blob `0c 01 00`).
#[kani::proof]
#[kani::unwind(4)]
#[kani::stub(core::fmt::write, c18_stub_fmt_write)]
#[kani::stub(alloc::fmt::format, c18_stub_fmt_format)]
#[kani::stub(core::slice::index::slice_index_fail, c18_stub_slice_index_fail)]
fn c18_value_flag_any() {
    value_flag(false);
}

#[kani::proof]
#[kani::unwind(4)]
#[kani::stub(core::fmt::write, c18_stub_fmt_write)]
#[kani::stub(alloc::fmt::format, c18_stub_fmt_format)]
#[kani::stub(core::slice::index::slice_index_fail, c18_stub_slice_index_fail)]
fn c18_value_flag_wf() {
    value_flag(true);
}

fn value_cid<const N: usize>(exclude_trigger: bool) {
    let arr: [u8; N] = kani::any();
    let len: usize = kani::any();
    kani::assume(len <= N);
    if exclude_trigger {
        kani::assume(len <= 20);
    }
    match glue(&arr[..len], ParameterId::InitialSourceConnectionId) {
        Ok(ParameterValue::ConnectionId(cid)) => {
            kani::cover!(len == 20, "20-byte connection id");
            kani::cover!(len == 0, "zero-length connection id");
            assert!(len <= 20, "a connection id longer than 20 bytes is never accepted");
            assert!(cid.len as usize == len);
            let j: usize = kani::any();
            kani::assume(j < 20 && j < len);
            assert!(cid.bytes[j] == arr[j], "the declared cid is exactly the bytes on the wire");
        }
        Ok(_) => assert!(false),
        Err(e) => {
            assert!(len > 20, "a connection id of <= 20 bytes always decodes");
            assert!(e.kind() == ErrorKind::TransportParameter);
            core::mem::forget(e);
        }
    }
}

/// C18 (pending, defect #1): a ConnectionId-typed parameter (original_destination_/initial_source_/
/// retry_source_connection_id) with ANY value of <= 22 bytes is decoded or rejected with
/// TRANSPORT_PARAMETER_ERROR. Fails: 21+ bytes panic in ConnectionId::from_slice (debug_assert in
/// debug builds, slice index 21 > 20 in release builds). Blob: `0f 15` + 21 arbitrary bytes.
#[kani::proof]
#[kani::unwind(24)]
#[kani::stub(core::fmt::write, c18_stub_fmt_write)]
#[kani::stub(alloc::fmt::format, c18_stub_fmt_format)]
#[kani::stub(core::slice::index::slice_index_fail, c18_stub_slice_index_fail)]
fn c18_value_cid_any() {
    value_cid::<22>(false);
}

#[kani::proof]
#[kani::unwind(24)]
#[kani::stub(core::fmt::write, c18_stub_fmt_write)]
#[kani::stub(alloc::fmt::format, c18_stub_fmt_format)]
#[kani::stub(core::slice::index::slice_index_fail, c18_stub_slice_index_fail)]
fn c18_value_cid_wf() {
    value_cid::<22>(true);
}

fn value_token<const N: usize>(exclude_trigger: bool) {
    let arr: [u8; N] = kani::any();
    let len: usize = kani::any();
    kani::assume(len <= N);
    if exclude_trigger {
        kani::assume(len == 16);
    }
    match glue(&arr[..len], ParameterId::StatelessResetToken) {
        Ok(ParameterValue::ResetToken(t)) => {
            kani::cover!(true, "16-byte token");
            assert!(len == 16, "only a 16-byte stateless reset token is accepted");
            let j: usize = kani::any();
            kani::assume(j < 16);
            assert!(t[j] == arr[j]);
        }
        Ok(_) => assert!(false),
        Err(e) => {
            assert!(len != 16);
            assert!(e.kind() == ErrorKind::TransportParameter);
            core::mem::forget(e);
        }
    }
}

/// C18 (pending, defect #3): stateless_reset_token with ANY value of <= 17 bytes is decoded or
/// rejected with TRANSPORT_PARAMETER_ERROR. Fails: < 16 bytes -> be_reset_token (nom *complete*
/// take) returns Err::Error and handle_nom_error asserts "Only incomplete errors should occur";
/// 17 bytes -> io.rs:175. Smallest failing blob: `02 00` (empty token).
#[kani::proof]
#[kani::unwind(19)]
#[kani::stub(core::fmt::write, c18_stub_fmt_write)]
#[kani::stub(alloc::fmt::format, c18_stub_fmt_format)]
#[kani::stub(core::slice::index::slice_index_fail, c18_stub_slice_index_fail)]
fn c18_value_token_any() {
    value_token::<17>(false);
}

#[kani::proof]
#[kani::unwind(19)]
#[kani::stub(core::fmt::write, c18_stub_fmt_write)]
#[kani::stub(alloc::fmt::format, c18_stub_fmt_format)]
#[kani::stub(core::slice::index::slice_index_fail, c18_stub_slice_index_fail)]
fn c18_value_token_wf() {
    value_token::<17>(true);
}

// ---------------------------------------------------------------------------------------------
// concrete witnesses of the three panics through the public entry point (tier pending)

/// Defect #1. Client's TLS extension = `0f 15 00*21` (initial_source_connection_id of 21 bytes),
/// parsed by a server: must be refused with an error; instead ConnectionId::from_slice panics.
#[kani::proof]
#[kani::unwind(24)]
#[kani::stub(crate::varint::be_varint, c18_model_be_varint)]
#[kani::stub(core::fmt::write, c18_stub_fmt_write)]
#[kani::stub(alloc::fmt::format, c18_stub_fmt_format)]
#[kani::stub(core::slice::index::slice_index_fail, c18_stub_slice_index_fail)]
#[kani::stub(tracing::callsite::DefaultCallsite::interest, c18_stub_tr_interest)]
#[kani::stub(tracing::__macro_support::__is_enabled, c18_stub_tr_enabled)]
#[kani::stub(tracing::Event::dispatch, c18_stub_tr_dispatch)]
fn c18_parse_witness_cid_21_bytes() {
    let mut blob = [0u8; 23];
    blob[0] = 0x0f;
    blob[1] = 21;
    let r = ClientParameters::parse_from_bytes(&blob[..]);
    kani::cover!(true, "parse returned");
    assert!(r.is_err(), "a 21-byte connection id is a TRANSPORT_PARAMETER_ERROR");
    core::mem::forget(r);
}

/// Defect #2. Client's TLS extension = `04 02 00 00` (initial_max_data, declared length 2, value
/// is the 1-byte varint 0 followed by a surplus byte): io.rs:175 `assert!(remain.is_empty())`.
#[kani::proof]
#[kani::unwind(6)]
#[kani::stub(crate::varint::be_varint, c18_model_be_varint)]
#[kani::stub(core::fmt::write, c18_stub_fmt_write)]
#[kani::stub(alloc::fmt::format, c18_stub_fmt_format)]
#[kani::stub(core::slice::index::slice_index_fail, c18_stub_slice_index_fail)]
#[kani::stub(tracing::callsite::DefaultCallsite::interest, c18_stub_tr_interest)]
#[kani::stub(tracing::__macro_support::__is_enabled, c18_stub_tr_enabled)]
#[kani::stub(tracing::Event::dispatch, c18_stub_tr_dispatch)]
fn c18_parse_witness_varint_surplus() {
    let blob = [0x04u8, 0x02, 0x00, 0x00];
    let r = ClientParameters::parse_from_bytes(&blob[..]);
    kani::cover!(true, "parse returned");
    assert!(r.is_err(), "a value longer than its varint is a TRANSPORT_PARAMETER_ERROR");
    core::mem::forget(r);
}

/// Defect #2. Client's TLS extension = `0c 01 00` (disable_active_migration with a 1-byte value).
#[kani::proof]
#[kani::unwind(6)]
#[kani::stub(crate::varint::be_varint, c18_model_be_varint)]
#[kani::stub(core::fmt::write, c18_stub_fmt_write)]
#[kani::stub(alloc::fmt::format, c18_stub_fmt_format)]
#[kani::stub(core::slice::index::slice_index_fail, c18_stub_slice_index_fail)]
#[kani::stub(tracing::callsite::DefaultCallsite::interest, c18_stub_tr_interest)]
#[kani::stub(tracing::__macro_support::__is_enabled, c18_stub_tr_enabled)]
#[kani::stub(tracing::Event::dispatch, c18_stub_tr_dispatch)]
fn c18_parse_witness_flag_surplus() {
    let blob = [0x0cu8, 0x01, 0x00];
    let r = ClientParameters::parse_from_bytes(&blob[..]);
    kani::cover!(true, "parse returned");
    assert!(r.is_err(), "a non-empty flag is a TRANSPORT_PARAMETER_ERROR");
    core::mem::forget(r);
}

/// Defect #3. Server's TLS extension = `02 01 00` (stateless_reset_token of 1 byte), parsed by a
/// client: handle_nom_error's assert "Only incomplete errors should occur" fires.
#[kani::proof]
#[kani::unwind(6)]
#[kani::stub(crate::varint::be_varint, c18_model_be_varint)]
#[kani::stub(core::fmt::write, c18_stub_fmt_write)]
#[kani::stub(alloc::fmt::format, c18_stub_fmt_format)]
#[kani::stub(core::slice::index::slice_index_fail, c18_stub_slice_index_fail)]
#[kani::stub(tracing::callsite::DefaultCallsite::interest, c18_stub_tr_interest)]
#[kani::stub(tracing::__macro_support::__is_enabled, c18_stub_tr_enabled)]
#[kani::stub(tracing::Event::dispatch, c18_stub_tr_dispatch)]
fn c18_parse_witness_token_short() {
    let blob = [0x02u8, 0x01, 0x00];
    let r = ServerParameters::parse_from_bytes(&blob[..]);
    kani::cover!(true, "parse returned");
    assert!(r.is_err(), "a short stateless reset token is a TRANSPORT_PARAMETER_ERROR");
    core::mem::forget(r);
}

// ---------------------------------------------------------------------------------------------
// mandatory ids on (nearly) concrete blobs through parse_from_bytes (cheap instances of
// c18_parse_required_*)

/// An empty TLS extension lacks the mandatory ids for both roles: TRANSPORT_PARAMETER_ERROR.
#[kani::proof]
#[kani::unwind(6)]
#[kani::stub(crate::varint::be_varint, c18_model_be_varint)]
#[kani::stub(core::fmt::write, c18_stub_fmt_write)]
#[kani::stub(alloc::fmt::format, c18_stub_fmt_format)]
#[kani::stub(core::slice::index::slice_index_fail, c18_stub_slice_index_fail)]
#[kani::stub(tracing::callsite::DefaultCallsite::interest, c18_stub_tr_interest)]
#[kani::stub(tracing::__macro_support::__is_enabled, c18_stub_tr_enabled)]
#[kani::stub(tracing::Event::dispatch, c18_stub_tr_dispatch)]
fn c18_parse_required_empty() {
    let blob = [0u8; 0];
    let rc = ClientParameters::parse_from_bytes(&blob[..]);
    let rs = ServerParameters::parse_from_bytes(&blob[..]);
    kani::cover!(true, "parse returned");
    assert!(matches!(&rc, Err(e) if e.kind() == ErrorKind::TransportParameter));
    assert!(matches!(&rs, Err(e) if e.kind() == ErrorKind::TransportParameter));
    core::mem::forget(rc);
    core::mem::forget(rs);
}

/// `0f 01 c` (initial_source_connection_id = [c], c symbolic) alone: a complete client set
/// (accepted, cid == [c]) but an incomplete server set (original_destination_connection_id
/// missing: TRANSPORT_PARAMETER_ERROR).
#[kani::proof]
#[kani::unwind(6)]
#[kani::stub(crate::varint::be_varint, c18_model_be_varint)]
#[kani::stub(core::fmt::write, c18_stub_fmt_write)]
#[kani::stub(alloc::fmt::format, c18_stub_fmt_format)]
#[kani::stub(core::slice::index::slice_index_fail, c18_stub_slice_index_fail)]
#[kani::stub(tracing::callsite::DefaultCallsite::interest, c18_stub_tr_interest)]
#[kani::stub(tracing::__macro_support::__is_enabled, c18_stub_tr_enabled)]
#[kani::stub(tracing::Event::dispatch, c18_stub_tr_dispatch)]
fn c18_parse_required_iscid_only() {
    let c: u8 = kani::any();
    let blob = [0x0fu8, 0x01, c];
    let rc = ClientParameters::parse_from_bytes(&blob[..]);
    match &rc {
        Ok(p) => assert!(is_cid1(p.get::<ConnectionId>(ParameterId::InitialSourceConnectionId), c)),
        Err(_) => assert!(false, "a client set with initial_source_connection_id is complete"),
    }
    core::mem::forget(rc);
    let rs = ServerParameters::parse_from_bytes(&blob[..]);
    kani::cover!(true, "parse returned");
    assert!(matches!(&rs, Err(e) if e.kind() == ErrorKind::TransportParameter), "server set lacks original_destination_connection_id");
    core::mem::forget(rs);
}
