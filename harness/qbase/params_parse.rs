// Kani harnesses compiled *inside* qbase::param::io (overlay injection, cfg(kani) only).
// Property C18, clause "all mandatory parameters are present, every value is legal for the peer's
// role ... otherwise the handshake fails with a transport-parameter error" — checked on the REAL
// entry point `Parameters::<R>::parse_from_bytes` (what qconnection/src/tls.rs hands the peer's
// TLS extension to).
//
// Cost cut (same technique as harness/qbase/frames_c03.rs / params_io.rs): nom's generic
// `be_varint` is replaced by a loop-free byte-arithmetic model; c18_varint_model_equivalence proves
// the model equal to the real parser (value, remaining slice, Needed) on every input <= 16 bytes.
// Blob *shapes* (number of parameters, value lengths) are concrete or small-range, ids are chosen
// from a small table, value bytes are symbolic.
//
// Malformed VALUES: the whole function costs minutes per symbolic parameter, so the per-value
// decoding is decided piecewise on the real pieces (be_parameter_value + handle_nom_error + the
// `assert!(remain.is_empty())` glue of io.rs:173-175, mirrored by `glue()`), and each suspected
// pre-authentication remote panic (DESIGN.md §6 #1-#3) additionally has a CONCRETE
// witness (`c18_value_witness_*`, no symbolic input: replayed natively as is).
// `*_any` and `*_witness_*` harnesses are registered `pending`; the `*_wf` twins assume the trigger
// away and pass.
use super::*;
use crate::{
    error::ErrorKind,
    param::core::ClientParameters,
};

pub(crate) fn c18_stub_fmt_write(
    _o: &mut dyn core::fmt::Write,
    _a: core::fmt::Arguments<'_>,
) -> core::fmt::Result {
    Ok(())
}
pub(crate) fn c18_stub_fmt_format(_a: core::fmt::Arguments<'_>) -> String {
    String::new()
}
pub(crate) fn c18_stub_tr_interest(
    _c: &'static tracing::callsite::DefaultCallsite,
) -> tracing::subscriber::Interest {
    tracing::subscriber::Interest::never()
}
pub(crate) fn c18_stub_tr_enabled(
    _m: &tracing::Metadata<'static>,
    _i: tracing::subscriber::Interest,
) -> bool {
    false
}
pub(crate) fn c18_stub_tr_dispatch<'a: 'a>(
    _m: &'static tracing::Metadata<'static>,
    _f: &'a tracing::field::ValueSet<'_>,
) {
}
/// Panic-message formatting of slice-index failures dominates symbolic execution; the panic stays.
pub(crate) fn c18_stub_slice_index_fail(_s: usize, _e: usize, _l: usize) -> ! {
    panic!("slice index out of range")
}

/// RFC 9000 §16 variable-length integer, loop-free (the stub for `crate::varint::be_varint`).
pub(crate) fn c18_model_be_varint(input: &[u8]) -> nom::IResult<&[u8], VarInt> {
    if input.is_empty() {
        return Err(nom::Err::Incomplete(nom::Needed::new(1)));
    }
    let b0 = input[0];
    let n = 1usize << (b0 >> 6);
    if input.len() < n {
        return Err(nom::Err::Incomplete(nom::Needed::new(n - input.len())));
    }
    let mut v = (b0 & 0x3f) as u64;
    if n >= 2 {
        v = (v << 8) | input[1] as u64;
    }
    if n >= 4 {
        v = (v << 8) | input[2] as u64;
        v = (v << 8) | input[3] as u64;
    }
    if n == 8 {
        v = (v << 8) | input[4] as u64;
        v = (v << 8) | input[5] as u64;
        v = (v << 8) | input[6] as u64;
        v = (v << 8) | input[7] as u64;
    }
    // SAFETY: v < 2^62 (6 + 7*8 bits)
    Ok((&input[n..], unsafe { VarInt::from_u64_unchecked(v) }))
}

/// The be_varint model equals the real nom parser (value, remaining slice, number of missing
/// bytes) on every byte string of <= 16 bytes.
#[kani::proof]
#[kani::unwind(10)]
fn c18_varint_model_equivalence() {
    let arr: [u8; 16] = kani::any();
    let len: usize = kani::any();
    kani::assume(len <= 16);
    let input = &arr[..len];
    match (be_varint(input), c18_model_be_varint(input)) {
        (Ok((r1, v1)), Ok((r2, v2))) => {
            assert!(v1 == v2, "same value");
            assert!(r1.len() == r2.len() && r1.as_ptr() == r2.as_ptr(), "same remaining slice");
            kani::cover!(r1.len() == 8 && len == 16);
        }
        (Err(nom::Err::Incomplete(n1)), Err(nom::Err::Incomplete(n2))) => {
            assert!(n1 == n2, "same number of missing bytes");
            kani::cover!(len == 7);
            kani::cover!(len == 0);
        }
        (a, b) => {
            core::mem::forget(a);
            core::mem::forget(b);
            panic!("model and real be_varint disagree")
        }
    }
}

// ---------------------------------------------------------------------------------------------
// mandatory ids / role-inappropriate ids / unknown ids, through parse_from_bytes

// ---------------------------------------------------------------------------------------------
// malformed values: a transport-parameter error, never a panic

/// The REAL glue between the framing of a parameter and `set` (io.rs `be_exact_parameter_value`,
/// called by both `parse_from_bytes` and `try_from_remembered_bytes`), followed by the conversion
/// every `?` in parse_from_bytes applies (param::Error -> QuicError). On the pinned tree these were
/// three inline lines with two reachable `assert!`s (genuine defects, fixed in /repo).
fn glue(value: &[u8], id: ParameterId) -> Result<ParameterValue, QuicError> {
    be_exact_parameter_value(value, id).map_err(QuicError::from)
}

/// RFC 9000 §16 varint of a value slice, written independently: (value, encoded length).
fn spec_varint(b: &[u8]) -> Option<(u64, usize)> {
    if b.is_empty() {
        return None;
    }
    let k = 1usize << (b[0] >> 6);
    if b.len() < k {
        return None;
    }
    let mut v = (b[0] & 0x3f) as u64;
    let mut i = 1;
    while i < k {
        v = (v << 8) | b[i] as u64;
        i += 1;
    }
    Some((v, k))
}

/// A varint-typed parameter (initial_max_data as representative: be_parameter_value only reads
/// id.value_type()) with a value of 0..=N bytes.
fn value_varint<const N: usize>(exclude_trigger: bool) {
    let arr: [u8; N] = kani::any();
    let len: usize = kani::any();
    kani::assume(len <= N);
    let value = &arr[..len];
    let spec = spec_varint(value);
    if exclude_trigger {
        // trigger of defect #2: declared length larger than the varint's own encoding
        kani::assume(len == 0 || len <= (1usize << (arr[0] >> 6)));
    }
    kani::cover!(len == N - 1 && spec.is_some(), "8-byte value decoded");
    kani::cover!(len == 2 && spec.is_some(), "2-byte value decoded");
    match glue(value, ParameterId::InitialMaxData) {
        Ok(ParameterValue::VarInt(v)) => assert!(spec == Some((v.into_u64(), len)), "decoded value == RFC 9000 varint, value fills its length"),
        Ok(_) => assert!(false, "numeric id decoded to a non-numeric value"),
        Err(e) => {
            kani::cover!(len == 0, "empty value is an error, not a panic");
            // refused exactly when the value is not ONE complete varint filling the declared length
            // (truncated, or followed by surplus bytes)
            assert!(!matches!(spec, Some((_, k)) if k == len), "a value that is exactly one varint is accepted");
            kani::cover!(exclude_trigger || matches!(spec, Some((_, k)) if k < len), "surplus bytes are an error, not a panic");
            assert!(e.kind() == ErrorKind::TransportParameter);
            core::mem::forget(e);
        }
    }
}

/// C18 (pending, defect #2): a VarInt-typed parameter with ANY value of <= 9 bytes is decoded or
/// rejected with TRANSPORT_PARAMETER_ERROR. Fails: surplus bytes hit `assert!(remain.is_empty())`
/// (smallest failing value: `00 00`, i.e. the blob `04 02 00 00`).
#[kani::proof]
#[kani::unwind(10)]
#[kani::stub(core::fmt::write, c18_stub_fmt_write)]
#[kani::stub(alloc::fmt::format, c18_stub_fmt_format)]
#[kani::stub(core::slice::index::slice_index_fail, c18_stub_slice_index_fail)]
fn c18_value_varint_any() {
    value_varint::<9>(false);
}

/// Twin: value no longer than its own varint encoding.
#[kani::proof]
#[kani::unwind(10)]
#[kani::stub(core::fmt::write, c18_stub_fmt_write)]
#[kani::stub(alloc::fmt::format, c18_stub_fmt_format)]
#[kani::stub(core::slice::index::slice_index_fail, c18_stub_slice_index_fail)]
fn c18_value_varint_wf() {
    value_varint::<9>(true);
}

fn value_flag(exclude_trigger: bool) {
    let arr: [u8; 2] = kani::any();
    let len: usize = kani::any();
    kani::assume(len <= 2);
    if exclude_trigger {
        kani::assume(len == 0);
    }
    let r = glue(&arr[..len], ParameterId::DisableActiveMigration);
    kani::cover!(len == 0, "empty flag");
    match &r {
        Ok(v) => assert!(matches!(v, ParameterValue::True) && len == 0, "only the empty value is a flag"),
        Err(e) => assert!(len > 0 && e.kind() == ErrorKind::TransportParameter),
    }
    core::mem::forget(r);
}

/// C18 (pending, defect #2): a flag parameter (disable_active_migration, grease_quic_bit) with a
/// non-empty value is rejected with TRANSPORT_PARAMETER_ERROR. Fails at io.rs:175 (smallest
/// failing value: one arbitrary byte, i.e. the blob `0c 01 00`).
#[kani::proof]
#[kani::unwind(4)]
#[kani::stub(core::fmt::write, c18_stub_fmt_write)]
#[kani::stub(alloc::fmt::format, c18_stub_fmt_format)]
#[kani::stub(core::slice::index::slice_index_fail, c18_stub_slice_index_fail)]
fn c18_value_flag_any() {
    value_flag(false);
}

#[kani::proof]
#[kani::unwind(4)]
#[kani::stub(core::fmt::write, c18_stub_fmt_write)]
#[kani::stub(alloc::fmt::format, c18_stub_fmt_format)]
#[kani::stub(core::slice::index::slice_index_fail, c18_stub_slice_index_fail)]
fn c18_value_flag_wf() {
    value_flag(true);
}

fn value_cid<const N: usize>(exclude_trigger: bool) {
    let arr: [u8; N] = kani::any();
    let len: usize = kani::any();
    kani::assume(len <= N);
    if exclude_trigger {
        kani::assume(len <= 20);
    }
    match glue(&arr[..len], ParameterId::InitialSourceConnectionId) {
        Ok(ParameterValue::ConnectionId(cid)) => {
            kani::cover!(len == 20, "20-byte connection id");
            kani::cover!(len == 0, "zero-length connection id");
            assert!(len <= 20, "a connection id longer than 20 bytes is never accepted");
            assert!(cid.len as usize == len);
            let j: usize = kani::any();
            kani::assume(j < 20 && j < len);
            assert!(cid.bytes[j] == arr[j], "the declared cid is exactly the bytes on the wire");
        }
        Ok(_) => assert!(false),
        Err(e) => {
            assert!(len > 20, "a connection id of <= 20 bytes always decodes");
            assert!(e.kind() == ErrorKind::TransportParameter);
            core::mem::forget(e);
        }
    }
}

/// C18 (pending, defect #1): a ConnectionId-typed parameter (original_destination_/initial_source_/
/// retry_source_connection_id) with ANY value of <= 22 bytes is decoded or rejected with
/// TRANSPORT_PARAMETER_ERROR. Fails: 21+ bytes panic in ConnectionId::from_slice (debug_assert in
/// debug builds, slice index 21 > 20 in release builds). Blob: `0f 15` + 21 arbitrary bytes.
#[kani::proof]
#[kani::unwind(24)]
#[kani::stub(core::fmt::write, c18_stub_fmt_write)]
#[kani::stub(alloc::fmt::format, c18_stub_fmt_format)]
#[kani::stub(core::slice::index::slice_index_fail, c18_stub_slice_index_fail)]
fn c18_value_cid_any() {
    value_cid::<22>(false);
}

#[kani::proof]
#[kani::unwind(24)]
#[kani::stub(core::fmt::write, c18_stub_fmt_write)]
#[kani::stub(alloc::fmt::format, c18_stub_fmt_format)]
#[kani::stub(core::slice::index::slice_index_fail, c18_stub_slice_index_fail)]
fn c18_value_cid_wf() {
    value_cid::<22>(true);
}

fn value_token<const N: usize>(exclude_trigger: bool) {
    let arr: [u8; N] = kani::any();
    let len: usize = kani::any();
    kani::assume(len <= N);
    if exclude_trigger {
        kani::assume(len == 16);
    }
    match glue(&arr[..len], ParameterId::StatelessResetToken) {
        Ok(ParameterValue::ResetToken(t)) => {
            kani::cover!(true, "16-byte token");
            assert!(len == 16, "only a 16-byte stateless reset token is accepted");
            let j: usize = kani::any();
            kani::assume(j < 16);
            assert!(t[j] == arr[j]);
        }
        Ok(_) => assert!(false),
        Err(e) => {
            assert!(len != 16);
            assert!(e.kind() == ErrorKind::TransportParameter);
            core::mem::forget(e);
        }
    }
}

/// C18 (pending, defect #3): stateless_reset_token with ANY value of <= 17 bytes is decoded or
/// rejected with TRANSPORT_PARAMETER_ERROR. Fails: < 16 bytes -> be_reset_token (nom *complete*
/// take) returns Err::Error and handle_nom_error asserts "Only incomplete errors should occur";
/// 17 bytes -> io.rs:175. Smallest failing blob: `02 00` (empty token).
#[kani::proof]
#[kani::unwind(19)]
#[kani::stub(core::fmt::write, c18_stub_fmt_write)]
#[kani::stub(alloc::fmt::format, c18_stub_fmt_format)]
#[kani::stub(core::slice::index::slice_index_fail, c18_stub_slice_index_fail)]
fn c18_value_token_any() {
    value_token::<17>(false);
}

#[kani::proof]
#[kani::unwind(19)]
#[kani::stub(core::fmt::write, c18_stub_fmt_write)]
#[kani::stub(alloc::fmt::format, c18_stub_fmt_format)]
#[kani::stub(core::slice::index::slice_index_fail, c18_stub_slice_index_fail)]
fn c18_value_token_wf() {
    value_token::<17>(true);
}

// ---------------------------------------------------------------------------------------------
// concrete witnesses of the three panics (tier pending; no symbolic input, so the checker replays
// them natively as they are). The real `parse_from_bytes` on a non-empty blob does not finish
// under CBMC even for concrete bytes (> 900 s), so the witnesses enter at be_parameter_value, i.e.
// after the framing `id len value` was split off (be_raw_parameter, C03 c03_params_raw).
// Natively, `ClientParameters::parse_from_bytes(&[0x0f, 21, 0 x 21])`, `(&[0x04, 2, 0, 0])`,
// `(&[0x0c, 1, 0])` and `ServerParameters::parse_from_bytes(&[0x02, 1, 0])` panic at the same sites.

/// Defect #1: value of initial_source_connection_id = 21 zero bytes (blob `0f 15 00*21`):
/// panics inside the repository's ConnectionId::from_slice.
#[kani::proof]
#[kani::unwind(24)]
#[kani::stub(core::fmt::write, c18_stub_fmt_write)]
#[kani::stub(alloc::fmt::format, c18_stub_fmt_format)]
#[kani::stub(core::slice::index::slice_index_fail, c18_stub_slice_index_fail)]
fn c18_value_witness_cid_21_bytes() {
    kani::cover!(true, "witness reached");
    let value = [0u8; 21];
    let r = glue(&value[..], ParameterId::InitialSourceConnectionId);
    assert!(r.is_err(), "a 21-byte connection id is a TRANSPORT_PARAMETER_ERROR");
    core::mem::forget(r);
}

/// Defect #3: value of stateless_reset_token = the single byte 00 (blob `02 01 00`): panics inside
/// the repository's handle_nom_error ("Only incomplete errors should occur").
#[kani::proof]
#[kani::unwind(19)]
#[kani::stub(core::fmt::write, c18_stub_fmt_write)]
#[kani::stub(alloc::fmt::format, c18_stub_fmt_format)]
#[kani::stub(core::slice::index::slice_index_fail, c18_stub_slice_index_fail)]
fn c18_value_witness_token_short() {
    kani::cover!(true, "witness reached");
    let value = [0u8; 1];
    let r = glue(&value[..], ParameterId::StatelessResetToken);
    assert!(r.is_err(), "a short stateless reset token is a TRANSPORT_PARAMETER_ERROR");
    core::mem::forget(r);
}

/// Defect #2: value of initial_max_data = `00 00` (blob `04 02 00 00`): be_parameter_value returns
/// the varint 0 with one byte left over; parse_from_bytes then executes
/// `assert!(remain.is_empty(), "Parameter value should consume all data")` (io.rs:175, mirrored
/// verbatim in `glue`).
#[kani::proof]
#[kani::unwind(6)]
#[kani::stub(core::fmt::write, c18_stub_fmt_write)]
#[kani::stub(alloc::fmt::format, c18_stub_fmt_format)]
#[kani::stub(core::slice::index::slice_index_fail, c18_stub_slice_index_fail)]
fn c18_value_witness_varint_surplus() {
    kani::cover!(true, "witness reached");
    let value = [0u8; 2];
    let r = glue(&value[..], ParameterId::InitialMaxData);
    assert!(r.is_err(), "a value longer than its varint is a TRANSPORT_PARAMETER_ERROR");
    core::mem::forget(r);
}

/// Defect #2: value of disable_active_migration = `00` (blob `0c 01 00`): same assert.
#[kani::proof]
#[kani::unwind(6)]
#[kani::stub(core::fmt::write, c18_stub_fmt_write)]
#[kani::stub(alloc::fmt::format, c18_stub_fmt_format)]
#[kani::stub(core::slice::index::slice_index_fail, c18_stub_slice_index_fail)]
fn c18_value_witness_flag_surplus() {
    kani::cover!(true, "witness reached");
    let value = [0u8; 1];
    let r = glue(&value[..], ParameterId::DisableActiveMigration);
    assert!(r.is_err(), "a non-empty flag is a TRANSPORT_PARAMETER_ERROR");
    core::mem::forget(r);
}

// ---------------------------------------------------------------------------------------------
// mandatory ids through the real parse_from_bytes: only the empty extension finishes under CBMC
// (a one-parameter blob, even fully concrete, exceeds 900 s)

/// An empty TLS extension lacks the mandatory ids for both roles: TRANSPORT_PARAMETER_ERROR.
#[kani::proof]
#[kani::unwind(6)]
#[kani::stub(crate::varint::be_varint, c18_model_be_varint)]
#[kani::stub(core::fmt::write, c18_stub_fmt_write)]
#[kani::stub(alloc::fmt::format, c18_stub_fmt_format)]
#[kani::stub(core::slice::index::slice_index_fail, c18_stub_slice_index_fail)]
#[kani::stub(tracing::callsite::DefaultCallsite::interest, c18_stub_tr_interest)]
#[kani::stub(tracing::__macro_support::__is_enabled, c18_stub_tr_enabled)]
#[kani::stub(tracing::Event::dispatch, c18_stub_tr_dispatch)]
fn c18_parse_required_empty() {
    let blob = [0u8; 0];
    let rc = ClientParameters::parse_from_bytes(&blob[..]);
    let rs = ServerParameters::parse_from_bytes(&blob[..]);
    kani::cover!(true, "parse returned");
    assert!(matches!(&rc, Err(e) if e.kind() == ErrorKind::TransportParameter));
    assert!(matches!(&rs, Err(e) if e.kind() == ErrorKind::TransportParameter));
    core::mem::forget(rc);
    core::mem::forget(rs);
}
