// Kani harnesses compiled *inside* qbase::param::io (overlay injection, cfg(kani) only).
// Property C18, clause "all mandatory parameters are present, every value is legal for the peer's
// role ... otherwise the handshake fails with a transport-parameter error" — checked on the REAL
// entry point `Parameters::<R>::parse_from_bytes` (what qconnection/src/tls.rs hands the peer's
// TLS extension to).
//
// Cost cut (same technique as harness/qbase/frames_c03.rs / params_io.rs): nom's generic
// `be_varint` is replaced by a loop-free byte-arithmetic model; c18_varint_model_equivalence proves
// the model equal to the real parser (value, remaining slice, Needed) on every input <= 16 bytes.
// Blob *shapes* (number of parameters, value lengths) are concrete or small-range, ids are chosen
// from a small table, value bytes are symbolic.
//
// The harnesses named `*_any` are registered `pending`: they expose the pre-authentication remote
// panics of the parser (DESIGN.md §6 #1-#3); their `*_wf` twins assume the trigger away and pass.
use super::*;
use crate::{
    error::ErrorKind,
    param::core::ClientParameters,
};

pub(crate) fn c18_stub_fmt_write(
    _o: &mut dyn core::fmt::Write,
    _a: core::fmt::Arguments<'_>,
) -> core::fmt::Result {
    Ok(())
}
pub(crate) fn c18_stub_fmt_format(_a: core::fmt::Arguments<'_>) -> String {
    String::new()
}
pub(crate) fn c18_stub_tr_interest(
    _c: &'static tracing::callsite::DefaultCallsite,
) -> tracing::subscriber::Interest {
    tracing::subscriber::Interest::never()
}
pub(crate) fn c18_stub_tr_enabled(
    _m: &tracing::Metadata<'static>,
    _i: tracing::subscriber::Interest,
) -> bool {
    false
}
pub(crate) fn c18_stub_tr_dispatch<'a: 'a>(
    _m: &'static tracing::Metadata<'static>,
    _f: &'a tracing::field::ValueSet<'_>,
) {
}
/// Panic-message formatting of slice-index failures dominates symbolic execution; the panic stays.
pub(crate) fn c18_stub_slice_index_fail(_s: usize, _e: usize, _l: usize) -> ! {
    panic!("slice index out of range")
}

/// RFC 9000 §16 variable-length integer, loop-free (the stub for `crate::varint::be_varint`).
pub(crate) fn c18_model_be_varint(input: &[u8]) -> nom::IResult<&[u8], VarInt> {
    if input.is_empty() {
        return Err(nom::Err::Incomplete(nom::Needed::new(1)));
    }
    let b0 = input[0];
    let n = 1usize << (b0 >> 6);
    if input.len() < n {
        return Err(nom::Err::Incomplete(nom::Needed::new(n - input.len())));
    }
    let mut v = (b0 & 0x3f) as u64;
    if n >= 2 {
        v = (v << 8) | input[1] as u64;
    }
    if n >= 4 {
        v = (v << 8) | input[2] as u64;
        v = (v << 8) | input[3] as u64;
    }
    if n == 8 {
        v = (v << 8) | input[4] as u64;
        v = (v << 8) | input[5] as u64;
        v = (v << 8) | input[6] as u64;
        v = (v << 8) | input[7] as u64;
    }
    // SAFETY: v < 2^62 (6 + 7*8 bits)
    Ok((&input[n..], unsafe { VarInt::from_u64_unchecked(v) }))
}

/// The be_varint model equals the real nom parser (value, remaining slice, number of missing
/// bytes) on every byte string of <= 16 bytes.
#[kani::proof]
#[kani::unwind(10)]
fn c18_varint_model_equivalence() {
    let arr: [u8; 16] = kani::any();
    let len: usize = kani::any();
    kani::assume(len <= 16);
    let input = &arr[..len];
    match (be_varint(input), c18_model_be_varint(input)) {
        (Ok((r1, v1)), Ok((r2, v2))) => {
            assert!(v1 == v2, "same value");
            assert!(r1.len() == r2.len() && r1.as_ptr() == r2.as_ptr(), "same remaining slice");
            kani::cover!(r1.len() == 8 && len == 16);
        }
        (Err(nom::Err::Incomplete(n1)), Err(nom::Err::Incomplete(n2))) => {
            assert!(n1 == n2, "same number of missing bytes");
            kani::cover!(len == 7);
            kani::cover!(len == 0);
        }
        (a, b) => {
            core::mem::forget(a);
            core::mem::forget(b);
            panic!("model and real be_varint disagree")
        }
    }
}

// ---------------------------------------------------------------------------------------------
// mandatory ids / role-inappropriate ids / unknown ids, through parse_from_bytes

/// ids a parameter of the blob may carry (wire value = 1 byte):
///   0x0f initial_source_connection_id (mandatory for both roles; cid)
///   0x00 original_destination_connection_id (mandatory in server sets, FORBIDDEN in client sets; cid)
///   0x04 initial_max_data (optional; varint)
///   0x21 an unassigned id (must be skipped)
const ID_TABLE: [u8; 4] = [0x0f, 0x00, 0x04, 0x21];

struct Blob {
    bytes: [u8; 6],
    n: usize,      // number of parameters (0..=2), each `id 01 v`
    ids: [u8; 2],  // wire ids
    vals: [u8; 2], // the one value byte of each
}

fn any_blob() -> Blob {
    let n: usize = kani::any();
    kani::assume(n <= 2);
    let k0: usize = kani::any();
    let k1: usize = kani::any();
    kani::assume(k0 < 4 && k1 < 4);
    let vals: [u8; 2] = kani::any();
    let ids = [ID_TABLE[k0], ID_TABLE[k1]];
    Blob { bytes: [ids[0], 1, vals[0], ids[1], 1, vals[1]], n, ids, vals }
}

impl Blob {
    fn has(&self, id: u8) -> bool {
        (self.n >= 1 && self.ids[0] == id) || (self.n >= 2 && self.ids[1] == id)
    }
    /// the value byte of the LAST parameter with this id (a later duplicate replaces an earlier one)
    fn last_val(&self, id: u8) -> u8 {
        if self.n >= 2 && self.ids[1] == id { self.vals[1] } else { self.vals[0] }
    }
    /// an initial_max_data value of one byte whose varint prefix announces 2/4/8 bytes is truncated
    fn truncated_varint(&self) -> bool {
        (self.n >= 1 && self.ids[0] == 0x04 && self.vals[0] >= 0x40)
            || (self.n >= 2 && self.ids[1] == 0x04 && self.vals[1] >= 0x40)
    }
}

fn is_cid1(c: Option<ConnectionId>, v: u8) -> bool {
    match c {
        Some(c) => c.len == 1 && c.bytes[0] == v,
        None => false,
    }
}

/// C18 (server side: the peer is a client): `ClientParameters::parse_from_bytes` on every blob of
/// 0..2 one-byte-valued parameters with ids from ID_TABLE:
/// Ok  <=>  initial_source_connection_id present  &&  no server-only id  &&  no truncated value;
/// every Err is a QuicError of kind TransportParameter; Ok => the set holds exactly the declared
/// values (unknown id skipped, absent optional parameter reads as its default).
#[kani::proof]
#[kani::unwind(10)]
#[kani::stub(crate::varint::be_varint, c18_model_be_varint)]
#[kani::stub(core::fmt::write, c18_stub_fmt_write)]
#[kani::stub(alloc::fmt::format, c18_stub_fmt_format)]
#[kani::stub(core::slice::index::slice_index_fail, c18_stub_slice_index_fail)]
#[kani::stub(tracing::callsite::DefaultCallsite::interest, c18_stub_tr_interest)]
#[kani::stub(tracing::__macro_support::__is_enabled, c18_stub_tr_enabled)]
#[kani::stub(tracing::Event::dispatch, c18_stub_tr_dispatch)]
fn c18_parse_required_client() {
    let b = any_blob();
    let r = ClientParameters::parse_from_bytes(&b.bytes[..3 * b.n]);
    let want_ok = b.has(0x0f) && !b.has(0x00) && !b.truncated_varint();
    kani::cover!(want_ok && b.has(0x21), "accepted, unknown id skipped");
    kani::cover!(!b.has(0x0f) && !b.has(0x00) && !b.truncated_varint(), "mandatory id missing");
    kani::cover!(b.has(0x00) && b.has(0x0f), "server-only id in a client's set");
    kani::cover!(b.n == 0, "empty extension");
    match &r {
        Ok(p) => {
            assert!(want_ok, "accepted only with the mandatory id, role-legal ids, complete values");
            assert!(is_cid1(p.get::<ConnectionId>(ParameterId::InitialSourceConnectionId), b.last_val(0x0f)));
            assert!(!p.contains(ParameterId::OriginalDestinationConnectionId));
            if b.has(0x04) {
                assert!(p.get::<u64>(ParameterId::InitialMaxData) == Some(b.last_val(0x04) as u64));
            } else {
                assert!(!p.contains(ParameterId::InitialMaxData));
                assert!(p.get::<u64>(ParameterId::InitialMaxData) == Some(0));
            }
        }
        Err(e) => {
            assert!(!want_ok, "a legal, complete set is accepted");
            assert!(e.kind() == ErrorKind::TransportParameter);
        }
    }
    core::mem::forget(r);
}

/// C18 (client side: the peer is a server): `ServerParameters::parse_from_bytes`:
/// Ok <=> initial_source_connection_id AND original_destination_connection_id present && no
/// truncated value; every Err is of kind TransportParameter.
#[kani::proof]
#[kani::unwind(10)]
#[kani::stub(crate::varint::be_varint, c18_model_be_varint)]
#[kani::stub(core::fmt::write, c18_stub_fmt_write)]
#[kani::stub(alloc::fmt::format, c18_stub_fmt_format)]
#[kani::stub(core::slice::index::slice_index_fail, c18_stub_slice_index_fail)]
#[kani::stub(tracing::callsite::DefaultCallsite::interest, c18_stub_tr_interest)]
#[kani::stub(tracing::__macro_support::__is_enabled, c18_stub_tr_enabled)]
#[kani::stub(tracing::Event::dispatch, c18_stub_tr_dispatch)]
fn c18_parse_required_server() {
    let b = any_blob();
    let r = ServerParameters::parse_from_bytes(&b.bytes[..3 * b.n]);
    let want_ok = b.has(0x0f) && b.has(0x00);
    kani::cover!(want_ok, "both mandatory ids present");
    kani::cover!(b.has(0x0f) && !b.has(0x00) && !b.truncated_varint(), "original_destination_connection_id missing");
    kani::cover!(b.has(0x00) && !b.has(0x0f) && !b.truncated_varint(), "initial_source_connection_id missing");
    match &r {
        Ok(p) => {
            assert!(want_ok, "accepted only with both mandatory ids");
            assert!(is_cid1(p.get::<ConnectionId>(ParameterId::InitialSourceConnectionId), b.last_val(0x0f)));
            assert!(is_cid1(p.get::<ConnectionId>(ParameterId::OriginalDestinationConnectionId), b.last_val(0x00)));
        }
        Err(e) => {
            assert!(!want_ok);
            assert!(e.kind() == ErrorKind::TransportParameter);
        }
    }
    core::mem::forget(r);
}

// ---------------------------------------------------------------------------------------------
// malformed values through parse_from_bytes: error, never a panic

const N_CID: usize = 22;

/// One connection-id typed parameter `0f <len> <len bytes>`, len 0..=22, as the only parameter of
/// a client's set.
fn parse_cid(exclude_trigger: bool) {
    let mut arr: [u8; 2 + N_CID] = kani::any();
    let len: usize = kani::any();
    kani::assume(len <= N_CID);
    if exclude_trigger {
        kani::assume(len <= 20);
    }
    arr[0] = 0x0f;
    arr[1] = len as u8;
    let r = ClientParameters::parse_from_bytes(&arr[..2 + len]);
    kani::cover!(len == 20, "20-byte connection id");
    kani::cover!(len == 0, "zero-length connection id");
    match &r {
        Ok(p) => {
            assert!(len <= 20, "a connection id longer than 20 bytes is never accepted");
            match p.get::<ConnectionId>(ParameterId::InitialSourceConnectionId) {
                Some(c) => {
                    assert!(c.len as usize == len);
                    let j: usize = kani::any();
                    kani::assume(j < 20 && j < len);
                    assert!(c.bytes[j] == arr[2 + j], "the declared cid is exactly the bytes on the wire");
                }
                None => assert!(false),
            }
        }
        Err(e) => {
            assert!(len > 20, "a well-formed cid parameter is accepted");
            assert!(e.kind() == ErrorKind::TransportParameter);
        }
    }
    core::mem::forget(r);
}

/// C18 (pending, defect #1): initial_source_connection_id with ANY value of <= 22 bytes is decoded
/// or rejected with TRANSPORT_PARAMETER_ERROR. Fails: 21+ bytes panic in ConnectionId::from_slice
/// (debug_assert / slice index 21 > 20). Failing blob: 0f 15 followed by 21 arbitrary bytes.
#[kani::proof]
#[kani::unwind(24)]
#[kani::stub(crate::varint::be_varint, c18_model_be_varint)]
#[kani::stub(core::fmt::write, c18_stub_fmt_write)]
#[kani::stub(alloc::fmt::format, c18_stub_fmt_format)]
#[kani::stub(core::slice::index::slice_index_fail, c18_stub_slice_index_fail)]
#[kani::stub(tracing::callsite::DefaultCallsite::interest, c18_stub_tr_interest)]
#[kani::stub(tracing::__macro_support::__is_enabled, c18_stub_tr_enabled)]
#[kani::stub(tracing::Event::dispatch, c18_stub_tr_dispatch)]
fn c18_parse_cid_any() {
    parse_cid(false);
}

/// Twin: value of <= 20 bytes: accepted, declared cid == wire bytes.
#[kani::proof]
#[kani::unwind(24)]
#[kani::stub(crate::varint::be_varint, c18_model_be_varint)]
#[kani::stub(core::fmt::write, c18_stub_fmt_write)]
#[kani::stub(alloc::fmt::format, c18_stub_fmt_format)]
#[kani::stub(core::slice::index::slice_index_fail, c18_stub_slice_index_fail)]
#[kani::stub(tracing::callsite::DefaultCallsite::interest, c18_stub_tr_interest)]
#[kani::stub(tracing::__macro_support::__is_enabled, c18_stub_tr_enabled)]
#[kani::stub(tracing::Event::dispatch, c18_stub_tr_dispatch)]
fn c18_parse_cid_wf() {
    parse_cid(true);
}

/// `0f 01 c` (mandatory id, so that acceptance is possible) followed by ONE numeric or flag
/// parameter `<id> <len> <len bytes>`, len 0..=3.
///   id 0x04 initial_max_data (varint), 0x01 max_idle_timeout (duration), 0x0c disable_active_migration (flag)
fn parse_scalar<const ID: u8>(exclude_trigger: bool) {
    let mut arr: [u8; 8] = kani::any();
    let len: usize = kani::any();
    kani::assume(len <= 3);
    arr[0] = 0x0f;
    arr[1] = 1;
    arr[3] = ID;
    arr[4] = len as u8;
    let is_flag = ID == 0x0c;
    // number of bytes the value's own varint encoding announces
    let own = 1usize << (arr[5] >> 6);
    let surplus = if is_flag { len > 0 } else { len > 0 && len > own };
    let truncated = !is_flag && (len == 0 || len < own);
    if exclude_trigger {
        kani::assume(!surplus);
    }
    let r = ClientParameters::parse_from_bytes(&arr[..5 + len]);
    kani::cover!(!truncated && !surplus, "well-formed value");
    kani::cover!(truncated, "truncated value");
    match &r {
        Ok(p) => {
            assert!(!truncated && !surplus, "only a value that fills its declared length exactly is accepted");
            if is_flag {
                assert!(p.get::<bool>(ParameterId::DisableActiveMigration) == Some(true));
            } else {
                let v: u64 = if own == 1 {
                    (arr[5] & 0x3f) as u64
                } else {
                    (((arr[5] & 0x3f) as u64) << 8) | arr[6] as u64
                };
                if ID == 0x04 {
                    assert!(p.get::<u64>(ParameterId::InitialMaxData) == Some(v));
                } else {
                    assert!(p.get::<Duration>(ParameterId::MaxIdleTimeout) == Some(Duration::from_millis(v)));
                }
            }
        }
        Err(e) => {
            assert!(truncated || surplus, "a well-formed value is accepted");
            assert!(e.kind() == ErrorKind::TransportParameter);
        }
    }
    core::mem::forget(r);
}

/// C18 (pending, defect #2): a varint-typed parameter whose declared length exceeds the varint's
/// own encoding is rejected with TRANSPORT_PARAMETER_ERROR. Fails at io.rs:175
/// `assert!(remain.is_empty())`. Failing blob: 0f 01 00 04 02 00 00 (initial_max_data, length 2, value 00 00).
#[kani::proof]
#[kani::unwind(10)]
#[kani::stub(crate::varint::be_varint, c18_model_be_varint)]
#[kani::stub(core::fmt::write, c18_stub_fmt_write)]
#[kani::stub(alloc::fmt::format, c18_stub_fmt_format)]
#[kani::stub(core::slice::index::slice_index_fail, c18_stub_slice_index_fail)]
#[kani::stub(tracing::callsite::DefaultCallsite::interest, c18_stub_tr_interest)]
#[kani::stub(tracing::__macro_support::__is_enabled, c18_stub_tr_enabled)]
#[kani::stub(tracing::Event::dispatch, c18_stub_tr_dispatch)]
fn c18_parse_varint_any() {
    parse_scalar::<0x04>(false);
}

#[kani::proof]
#[kani::unwind(10)]
#[kani::stub(crate::varint::be_varint, c18_model_be_varint)]
#[kani::stub(core::fmt::write, c18_stub_fmt_write)]
#[kani::stub(alloc::fmt::format, c18_stub_fmt_format)]
#[kani::stub(core::slice::index::slice_index_fail, c18_stub_slice_index_fail)]
#[kani::stub(tracing::callsite::DefaultCallsite::interest, c18_stub_tr_interest)]
#[kani::stub(tracing::__macro_support::__is_enabled, c18_stub_tr_enabled)]
#[kani::stub(tracing::Event::dispatch, c18_stub_tr_dispatch)]
fn c18_parse_varint_wf() {
    parse_scalar::<0x04>(true);
}

/// Same for a Duration-typed parameter (max_idle_timeout), twin only.
#[kani::proof]
#[kani::unwind(10)]
#[kani::stub(crate::varint::be_varint, c18_model_be_varint)]
#[kani::stub(core::fmt::write, c18_stub_fmt_write)]
#[kani::stub(alloc::fmt::format, c18_stub_fmt_format)]
#[kani::stub(core::slice::index::slice_index_fail, c18_stub_slice_index_fail)]
#[kani::stub(tracing::callsite::DefaultCallsite::interest, c18_stub_tr_interest)]
#[kani::stub(tracing::__macro_support::__is_enabled, c18_stub_tr_enabled)]
#[kani::stub(tracing::Event::dispatch, c18_stub_tr_dispatch)]
fn c18_parse_duration_wf() {
    parse_scalar::<0x01>(true);
}

/// C18 (pending, defect #2): a flag parameter with a non-empty value is rejected with
/// TRANSPORT_PARAMETER_ERROR. Fails at io.rs:175. Failing blob: 0f 01 00 0c 01 00.
#[kani::proof]
#[kani::unwind(10)]
#[kani::stub(crate::varint::be_varint, c18_model_be_varint)]
#[kani::stub(core::fmt::write, c18_stub_fmt_write)]
#[kani::stub(alloc::fmt::format, c18_stub_fmt_format)]
#[kani::stub(core::slice::index::slice_index_fail, c18_stub_slice_index_fail)]
#[kani::stub(tracing::callsite::DefaultCallsite::interest, c18_stub_tr_interest)]
#[kani::stub(tracing::__macro_support::__is_enabled, c18_stub_tr_enabled)]
#[kani::stub(tracing::Event::dispatch, c18_stub_tr_dispatch)]
fn c18_parse_flag_any() {
    parse_scalar::<0x0c>(false);
}

#[kani::proof]
#[kani::unwind(10)]
#[kani::stub(crate::varint::be_varint, c18_model_be_varint)]
#[kani::stub(core::fmt::write, c18_stub_fmt_write)]
#[kani::stub(alloc::fmt::format, c18_stub_fmt_format)]
#[kani::stub(core::slice::index::slice_index_fail, c18_stub_slice_index_fail)]
#[kani::stub(tracing::callsite::DefaultCallsite::interest, c18_stub_tr_interest)]
#[kani::stub(tracing::__macro_support::__is_enabled, c18_stub_tr_enabled)]
#[kani::stub(tracing::Event::dispatch, c18_stub_tr_dispatch)]
fn c18_parse_flag_wf() {
    parse_scalar::<0x0c>(true);
}

const N_TOK: usize = 17;

/// A server's set `0f 01 c  00 01 d  02 <len> <len bytes>` (stateless_reset_token), len 0..=17.
fn parse_token(exclude_trigger: bool) {
    let mut arr: [u8; 8 + N_TOK] = kani::any();
    let len: usize = kani::any();
    kani::assume(len <= N_TOK);
    if exclude_trigger {
        kani::assume(len == 16);
    }
    arr[0] = 0x0f;
    arr[1] = 1;
    arr[3] = 0x00;
    arr[4] = 1;
    arr[6] = 0x02;
    arr[7] = len as u8;
    let r = ServerParameters::parse_from_bytes(&arr[..8 + len]);
    kani::cover!(len == 16, "16-byte token");
    match &r {
        Ok(p) => {
            assert!(len == 16, "only a 16-byte stateless reset token is accepted");
            match p.get::<ResetToken>(ParameterId::StatelessResetToken) {
                Some(t) => {
                    let j: usize = kani::any();
                    kani::assume(j < 16);
                    assert!(t[j] == arr[8 + j]);
                }
                None => assert!(false),
            }
        }
        Err(e) => {
            assert!(len != 16);
            assert!(e.kind() == ErrorKind::TransportParameter);
        }
    }
    core::mem::forget(r);
}

/// C18 (pending, defect #3): stateless_reset_token with any value of <= 17 bytes is decoded or
/// rejected with TRANSPORT_PARAMETER_ERROR. Fails: < 16 bytes -> be_reset_token (nom *complete*
/// take) returns Err::Error and handle_nom_error asserts "Only incomplete errors should occur";
/// 17 bytes -> io.rs:175. Failing blob: 0f 01 00 00 01 00 02 00 (empty token).
#[kani::proof]
#[kani::unwind(19)]
#[kani::stub(crate::varint::be_varint, c18_model_be_varint)]
#[kani::stub(core::fmt::write, c18_stub_fmt_write)]
#[kani::stub(alloc::fmt::format, c18_stub_fmt_format)]
#[kani::stub(core::slice::index::slice_index_fail, c18_stub_slice_index_fail)]
#[kani::stub(tracing::callsite::DefaultCallsite::interest, c18_stub_tr_interest)]
#[kani::stub(tracing::__macro_support::__is_enabled, c18_stub_tr_enabled)]
#[kani::stub(tracing::Event::dispatch, c18_stub_tr_dispatch)]
fn c18_parse_token_any() {
    parse_token(false);
}

#[kani::proof]
#[kani::unwind(19)]
#[kani::stub(crate::varint::be_varint, c18_model_be_varint)]
#[kani::stub(core::fmt::write, c18_stub_fmt_write)]
#[kani::stub(alloc::fmt::format, c18_stub_fmt_format)]
#[kani::stub(core::slice::index::slice_index_fail, c18_stub_slice_index_fail)]
#[kani::stub(tracing::callsite::DefaultCallsite::interest, c18_stub_tr_interest)]
#[kani::stub(tracing::__macro_support::__is_enabled, c18_stub_tr_enabled)]
#[kani::stub(tracing::Event::dispatch, c18_stub_tr_dispatch)]
fn c18_parse_token_wf() {
    parse_token(true);
}
