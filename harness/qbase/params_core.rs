// Kani harnesses compiled *inside* qbase::param::core (overlay injection, cfg(kani) only).
// Property C18: range / role validation of every transport parameter id, defaults, the typed
// parameter set (`Parameters<R>::set/get/contains`) and the 0-RTT "no smaller" rule.
//
// Oracles are written as independent tables from RFC 9000 §18.2 (ids, roles) and from the bounds
// the repository *declares* in `#[param(bound = ..)]`; the RFC-only ranges the repository does not
// declare are checked in the `pending` harness c18_validate_rfc_ranges.
use super::*;

pub(crate) fn stub_fmt_write(
    _o: &mut dyn core::fmt::Write,
    _a: core::fmt::Arguments<'_>,
) -> core::fmt::Result {
    Ok(())
}

const ALL_IDS: [ParameterId; 20] = [
    ParameterId::OriginalDestinationConnectionId,
    ParameterId::MaxIdleTimeout,
    ParameterId::StatelessResetToken,
    ParameterId::MaxUdpPayloadSize,
    ParameterId::InitialMaxData,
    ParameterId::InitialMaxStreamDataBidiLocal,
    ParameterId::InitialMaxStreamDataBidiRemote,
    ParameterId::InitialMaxStreamDataUni,
    ParameterId::InitialMaxStreamsBidi,
    ParameterId::InitialMaxStreamsUni,
    ParameterId::AckDelayExponent,
    ParameterId::MaxAckDelay,
    ParameterId::DisableActiveMigration,
    ParameterId::PreferredAddress,
    ParameterId::ActiveConnectionIdLimit,
    ParameterId::InitialSourceConnectionId,
    ParameterId::RetrySourceConnectionId,
    ParameterId::MaxDatagramFrameSize,
    ParameterId::GreaseQuicBit,
    ParameterId::ClientName,
];
/// RFC 9000 §18.2 / RFC 9221 / RFC 9287 wire ids (0xffee: genmeta extension), same order.
const ALL_WIRE: [u64; 20] = [
    0x00, 0x01, 0x02, 0x03, 0x04, 0x05, 0x06, 0x07, 0x08, 0x09, 0x0a, 0x0b, 0x0c, 0x0d, 0x0e, 0x0f,
    0x10, 0x20, 0x2ab2, 0xffee,
];

fn any_id() -> (usize, ParameterId) {
    let i: usize = kani::any();
    kani::assume(i < 20);
    (i, ALL_IDS[i])
}

fn any_varint() -> VarInt {
    let v: u64 = kani::any();
    kani::assume(v <= VARINT_MAX);
    VarInt::from_u64(v).unwrap()
}

/// value type each id must carry (RFC 9000 §18.2), by table index
fn spec_type(i: usize) -> ParameterValueType {
    match i {
        0 | 15 | 16 => ParameterValueType::ConnectionId,
        1 | 11 => ParameterValueType::Duration,
        2 => ParameterValueType::ResetToken,
        12 | 18 => ParameterValueType::Boolean,
        13 => ParameterValueType::PreferredAddress,
        19 => ParameterValueType::Bytes,
        _ => ParameterValueType::VarInt,
    }
}

/// C18: wire id <-> ParameterId is the RFC table, in both directions, for every 62-bit id value;
/// every other value is reported as UnknownParameterId (and skipped by the parser).
#[kani::proof]
#[kani::stub(core::fmt::write, stub_fmt_write)]
fn c18_id_table() {
    let v = any_varint();
    let r = ParameterId::try_from(v);
    let mut known = false;
    let mut k = 0;
    while k < 20 {
        if ALL_WIRE[k] == v.into_u64() {
            known = true;
            assert!(matches!(&r, Ok(id) if *id == ALL_IDS[k]));
            assert!(VarInt::from(ALL_IDS[k]).into_u64() == ALL_WIRE[k]);
            assert!(ALL_IDS[k].value_type() == spec_type(k));
        }
        k += 1;
    }
    if !known {
        assert!(matches!(&r, Err(Error::UnknownParameterId(x)) if *x == v));
    }
    kani::cover!(known, "known id");
    kani::cover!(!known && v.into_u64() > 0xffff, "unknown large id");
    core::mem::forget(r);
}

/// The bounds the repository declares: (lo, hi) inclusive, by table index.
fn declared_bound(i: usize) -> Option<(u64, u64)> {
    match i {
        3 => Some((1200, 65527)),
        // initial_max_streams_{bidi,uni}: <= MAX_STREAMS_LIMIT = 2^60-1 and max_ack_delay < 2^14 ms were
        // undeclared on the pinned tree (genuine defect, fixed in /repo)
        8 | 9 => Some((0, (1u64 << 60) - 1)),
        10 => Some((0, 20)),
        11 => Some((0, 16383)),
        14 => Some((2, VARINT_MAX)),
        _ => None,
    }
}

/// C18: `validate` for every id x every VarInt value (full 62-bit range): Err(OutOfBounds) exactly
/// outside the declared bound, Ok inside.
#[kani::proof]
#[kani::stub(core::fmt::write, stub_fmt_write)]
fn c18_validate_varint() {
    let (i, id) = any_id();
    // max_ack_delay (index 11) is Duration-typed with a bound: a VarInt value is a type error there
    // (c18_validate_wrong_type); its bound is checked in milliseconds by c18_validate_rfc_ranges
    kani::assume(i != 11);
    let v = any_varint();
    let r = id.validate(&ParameterValue::VarInt(v));
    match declared_bound(i) {
        Some((lo, hi)) => {
            let x = v.into_u64();
            if x < lo || x > hi {
                assert!(
                    matches!(&r, Err(Error::OutOfBounds(e_id, e_v, e_r))
                        if *e_id == id && *e_v == x && *e_r.start() == lo && *e_r.end() == hi)
                );
            } else {
                assert!(r.is_ok());
            }
            kani::cover!(x == lo, "lower bound accepted");
            kani::cover!(x == hi, "upper bound accepted");
            kani::cover!(lo > 0 && x == lo - 1, "just below the lower bound");
            kani::cover!(hi < VARINT_MAX && x == hi + 1, "just above the upper bound");
        }
        None => assert!(r.is_ok()),
    }
    core::mem::forget(r);
}

/// C18: a bounded id given a value of another type is rejected with InvalidValueType.
#[kani::proof]
#[kani::stub(core::fmt::write, stub_fmt_write)]
fn c18_validate_wrong_type() {
    let (i, id) = any_id();
    let which: u8 = kani::any();
    let ms: u64 = kani::any();
    kani::assume(ms <= VARINT_MAX);
    let value = match which % 3 {
        0 => ParameterValue::True,
        1 => ParameterValue::Duration(Duration::from_millis(ms)),
        _ => ParameterValue::ConnectionId(ConnectionId::default()),
    };
    let vt = value.value_type();
    // a Duration value for the Duration-typed, bounded max_ack_delay is not a type error
    kani::assume(!(i == 11 && which % 3 == 1));
    let r = id.validate(&value);
    if declared_bound(i).is_some() {
        assert!(matches!(&r, Err(Error::InvalidValueType(e_id, e_t)) if *e_id == id && *e_t == vt));
        kani::cover!(true, "wrong type rejected");
    } else {
        assert!(r.is_ok());
    }
    core::mem::forget(r);
    core::mem::forget(value);
}

/// RFC 9000 §18.2 ranges (superset of the declared ones): max_ack_delay < 2^14 ms,
/// initial_max_streams_{bidi,uni} <= 2^60 (§4.6), plus the declared ones.
fn rfc_ok(i: usize, x: u64) -> bool {
    match i {
        3 => x >= 1200 && x <= 65527,
        // RFC 9000 §4.6 / §18.2: values above 2^60 MUST be rejected; exactly 2^60 is legal on the wire but
        // not representable by this implementation (MAX_STREAMS_LIMIT = 2^60-1): rejecting it is the
        // implementation's conservative choice and is excluded from the oracle by the callers
        8 | 9 => x < (1u64 << 60),
        10 => x <= 20,
        11 => x < (1u64 << 14),
        14 => x >= 2,
        _ => true,
    }
}

/// C18: validate accepts exactly the RFC 9000 range. On the pinned tree this failed for max_ack_delay
/// >= 2^14 and initial_max_streams_* > 2^60 (no bound declared: genuine defect, fixed in /repo).
#[kani::proof]
#[kani::stub(core::fmt::write, stub_fmt_write)]
fn c18_validate_rfc_ranges() {
    let (i, id) = any_id();
    let x: u64 = kani::any();
    kani::assume(x <= VARINT_MAX);
    kani::assume(spec_type(i) == ParameterValueType::VarInt || spec_type(i) == ParameterValueType::Duration);
    kani::assume(!((i == 8 || i == 9) && x == (1u64 << 60)));
    let value = if spec_type(i) == ParameterValueType::Duration {
        ParameterValue::Duration(Duration::from_millis(x))
    } else {
        ParameterValue::VarInt(VarInt::from_u64(x).unwrap())
    };
    let r = id.validate(&value);
    kani::cover!(r.is_err(), "some value rejected");
    kani::cover!(i == 11 && r.is_err(), "max_ack_delay >= 2^14 rejected");
    kani::cover!((i == 8 || i == 9) && r.is_err(), "initial_max_streams above 2^60 rejected");
    assert!(r.is_ok() == rfc_ok(i, x), "validate accepts exactly the RFC 9000 range");
    core::mem::forget(r);
}

/// Twin of c18_validate_rfc_ranges with the three undeclared RFC bounds assumed away.
#[kani::proof]
#[kani::stub(core::fmt::write, stub_fmt_write)]
fn c18_validate_rfc_ranges_declared() {
    let (i, id) = any_id();
    let x: u64 = kani::any();
    kani::assume(x <= VARINT_MAX);
    kani::assume(spec_type(i) == ParameterValueType::VarInt || spec_type(i) == ParameterValueType::Duration);
    kani::assume(i != 8 && i != 9 && i != 11);
    let value = if spec_type(i) == ParameterValueType::Duration {
        ParameterValue::Duration(Duration::from_millis(x))
    } else {
        ParameterValue::VarInt(VarInt::from_u64(x).unwrap())
    };
    let r = id.validate(&value);
    kani::cover!(r.is_err(), "some value rejected");
    kani::cover!(r.is_ok() && i == 1, "idle timeout accepted");
    assert!(r.is_ok() == rfc_ok(i, x));
    core::mem::forget(r);
}

/// RFC 9000 §18.2: these four MUST NOT be sent by a client; 0xffee (client name) is client-only.
fn spec_allowed(i: usize, role: Role) -> bool {
    match i {
        0 | 2 | 13 | 16 => role == Role::Server,
        19 => role == Role::Client,
        _ => true,
    }
}

/// C18: `belong_to` for every id x both roles.
#[kani::proof]
#[kani::stub(core::fmt::write, stub_fmt_write)]
fn c18_belong_to() {
    let (i, id) = any_id();
    let role = if kani::any() { Role::Client } else { Role::Server };
    let r = id.belong_to(role);
    if spec_allowed(i, role) {
        assert!(r.is_ok());
    } else {
        assert!(matches!(&r, Err(Error::InvalidParameterId(e_id, e_role)) if *e_id == id && *e_role == role));
    }
    kani::cover!(!spec_allowed(i, role) && role == Role::Client, "server-only id refused for a client");
    kani::cover!(!spec_allowed(i, role) && role == Role::Server, "client-only id refused for a server");
    core::mem::forget(r);
}

/// A value of the wire type the id carries (numeric types: the symbolic x; others: a sample).
fn value_of_type(ty: ParameterValueType, x: VarInt) -> ParameterValue {
    match ty {
        ParameterValueType::VarInt => ParameterValue::VarInt(x),
        ParameterValueType::Duration => ParameterValue::Duration(Duration::from_millis(x.into_u64())),
        ParameterValueType::Boolean => ParameterValue::True,
        ParameterValueType::Bytes => ParameterValue::Bytes(Bytes::from_static(b"ab")),
        ParameterValueType::ResetToken => ParameterValue::ResetToken(ResetToken::new(&[7u8; 16])),
        ParameterValueType::ConnectionId => {
            let len: usize = kani::any();
            kani::assume(len <= 20);
            let bytes: [u8; 20] = kani::any();
            ParameterValue::ConnectionId(ConnectionId::from_slice(&bytes[..len]))
        }
        ParameterValueType::PreferredAddress => ParameterValue::PreferredAddress(PreferredAddress::new(
            std::net::SocketAddrV4::new(std::net::Ipv4Addr::new(192, 0, 2, 1), 443),
            std::net::SocketAddrV6::new(std::net::Ipv6Addr::LOCALHOST, 443, 0, 0),
            ConnectionId::from_slice(&[1, 2, 3, 4]),
            ResetToken::new(&[9u8; 16]),
        )),
    }
}

fn set_step<R: IntoRole + Default>() {
    let (i, id) = any_id();
    let role = R::into_role();
    let x = any_varint();
    let value = value_of_type(spec_type(i), x);
    let mut p = Parameters::<R>::new();
    assert!(p.is_empty() && !p.contains(id));
    let r = p.set(id, value);
    let in_bound = match declared_bound(i) {
        Some((lo, hi)) => x.into_u64() >= lo && x.into_u64() <= hi,
        None => true,
    };
    let expect_ok = spec_allowed(i, role) && in_bound;
    assert!(r.is_ok() == expect_ok);
    if expect_ok {
        assert!(p.contains(id) && !p.is_empty());
        if spec_type(i) == ParameterValueType::VarInt {
            assert!(p.get::<VarInt>(id) == Some(x));
            assert!(p.get::<u64>(id) == Some(x.into_u64()));
        }
    } else {
        // a rejected parameter leaves the set unchanged
        assert!(!p.contains(id) && p.is_empty());
    }
    kani::cover!(expect_ok, "accepted");
    kani::cover!(!spec_allowed(i, role), "refused: role");
    kani::cover!(spec_allowed(i, role) && !in_bound, "refused: range");
    core::mem::forget(r);
    core::mem::forget(p);
}

/// C18: `Parameters<Client>::set` accepts a (id, varint) pair iff the id may be sent by a client and
/// the value is within the declared range; a refused pair leaves the set unchanged.
#[kani::proof]
#[kani::unwind(10)]
#[kani::stub(core::fmt::write, stub_fmt_write)]
fn c18_set_client() {
    set_step::<Client>();
}

/// C18: same for `Parameters<Server>`.
#[kani::proof]
#[kani::unwind(10)]
#[kani::stub(core::fmt::write, stub_fmt_write)]
fn c18_set_server() {
    set_step::<Server>();
}

/// C18: absent parameters read as the RFC 9000 §18.2 defaults.
#[kani::proof]
#[kani::unwind(10)]
fn c18_defaults() {
    let p = ClientParameters::new();
    assert!(p.get::<Duration>(ParameterId::MaxIdleTimeout) == Some(Duration::ZERO));
    assert!(p.get::<u64>(ParameterId::MaxUdpPayloadSize) == Some(65527));
    assert!(p.get::<u64>(ParameterId::InitialMaxData) == Some(0));
    assert!(p.get::<u64>(ParameterId::InitialMaxStreamDataBidiLocal) == Some(0));
    assert!(p.get::<u64>(ParameterId::InitialMaxStreamDataBidiRemote) == Some(0));
    assert!(p.get::<u64>(ParameterId::InitialMaxStreamDataUni) == Some(0));
    assert!(p.get::<u64>(ParameterId::InitialMaxStreamsBidi) == Some(0));
    assert!(p.get::<u64>(ParameterId::InitialMaxStreamsUni) == Some(0));
    assert!(p.get::<u64>(ParameterId::AckDelayExponent) == Some(3));
    assert!(p.get::<Duration>(ParameterId::MaxAckDelay) == Some(Duration::from_millis(25)));
    assert!(p.get::<u64>(ParameterId::ActiveConnectionIdLimit) == Some(2));
    assert!(p.get::<u64>(ParameterId::MaxDatagramFrameSize) == Some(0));
    assert!(p.get::<bool>(ParameterId::DisableActiveMigration).is_none());
    assert!(p.get::<bool>(ParameterId::GreaseQuicBit).is_none());
    assert!(p.get::<ConnectionId>(ParameterId::InitialSourceConnectionId).is_none());
    assert!(p.get::<ConnectionId>(ParameterId::OriginalDestinationConnectionId).is_none());
    assert!(p.get::<ConnectionId>(ParameterId::RetrySourceConnectionId).is_none());
    assert!(p.get::<ResetToken>(ParameterId::StatelessResetToken).is_none());
    kani::cover!(true, "defaults read");
    core::mem::forget(p);
}

const ZRTT_IDS: [ParameterId; 8] = [
    ParameterId::InitialMaxData,
    ParameterId::InitialMaxStreamDataBidiLocal,
    ParameterId::InitialMaxStreamDataBidiRemote,
    ParameterId::InitialMaxStreamDataUni,
    ParameterId::InitialMaxStreamsBidi,
    ParameterId::InitialMaxStreamsUni,
    ParameterId::ActiveConnectionIdLimit,
    ParameterId::MaxDatagramFrameSize,
];
const ZRTT_DEFAULT: [u64; 8] = [0, 0, 0, 0, 0, 0, 2, 0];

/// Build a server parameter set in which the 0-RTT relevant parameters ZRTT_IDS[k] with bit k of
/// MASK set are explicitly present with symbolic (valid) values, the others absent (read as their
/// defaults).
fn zrtt_set<const MASK: u8>() -> (ServerParameters, [u64; 8]) {
    let mut p = ServerParameters::new();
    let mut eff = ZRTT_DEFAULT;
    let mut k = 0;
    while k < 8 {
        if MASK & (1 << k) != 0 {
            let v = any_varint();
            if k == 6 {
                kani::assume(v.into_u64() >= 2);
            }
            let r = p.set(ZRTT_IDS[k], v);
            assert!(r.is_ok());
            core::mem::forget(r);
            eff[k] = v.into_u64();
        }
        k += 1;
    }
    (p, eff)
}

fn zrtt_check<const MASK_OLD: u8, const MASK_NEW: u8>() {
    let (old, e_old) = zrtt_set::<MASK_OLD>();
    let (new, e_new) = zrtt_set::<MASK_NEW>();
    let got = old.is_0rtt_accepted(&new);
    let mut want = true;
    let mut k = 0;
    while k < 8 {
        if e_old[k] > e_new[k] {
            want = false;
        }
        k += 1;
    }
    kani::cover!(want, "remembered parameters honoured");
    kani::cover!(!want, "remembered parameters refused");
    assert!(got == want, "0-RTT accepted iff no remembered limit exceeds the new one");
    core::mem::forget(old);
    core::mem::forget(new);
}

/// C18: remembered parameters are honoured for 0-RTT iff each of the eight limits in the new set
/// is no smaller. The four data limits (initial_max_data, initial_max_stream_data_*) present in
/// both sets with symbolic full-range values, the other four absent (defaults) in both.
#[kani::proof]
#[kani::unwind(10)]
#[kani::stub(core::fmt::write, stub_fmt_write)]
fn c18_zero_rtt_first_four() {
    zrtt_check::<0x0f, 0x0f>();
}

/// C18: same for initial_max_streams_bidi / _uni and max_datagram_frame_size.
#[kani::proof]
#[kani::unwind(10)]
#[kani::stub(core::fmt::write, stub_fmt_write)]
fn c18_zero_rtt_streams_datagram() {
    zrtt_check::<0xb0, 0xb0>();
}

/// C18: active_connection_id_limit (the one bounded limit, default 2) remembered but absent in the
/// new set: compared with the default. (Present in both sets: CBMC runs out of memory.)
#[kani::proof]
#[kani::unwind(10)]
#[kani::stub(core::fmt::write, stub_fmt_write)]
fn c18_zero_rtt_cid_limit_old_only() {
    zrtt_check::<0x40, 0x00>();
}

/// C18: absent parameters are compared as their defaults: remembered set has initial_max_data and
/// initial_max_streams_uni present, the new set initial_max_data and initial_max_streams_bidi.
#[kani::proof]
#[kani::unwind(10)]
#[kani::stub(core::fmt::write, stub_fmt_write)]
fn c18_zero_rtt_defaults() {
    zrtt_check::<0x21, 0x11>();
}
