// Kani harness compiled *inside* qbase::frame::add_address (overlay injection, cfg(kani) only), because
// the frame's fields are private to that module and its public constructor cannot produce every
// value (u32-only constructor). Property C05: see frames_c05.rs for the harness shape and the helpers
// (`encode_exact`, `skip_type`, `done`, the verified `model_be_varint`).
use super::*;
#[allow(unused_imports)]
use crate::frame::{
    FrameType, GetFrameType,
    verif_frames_c05::{
        any_cid, any_nat_type, any_socket_addr, any_varint, cid_eq, done, encode_exact, model_be_varint, skip_type,
        stub_slice_index_fail,
    },
};

fn body() {
    let v6: bool = kani::any();
    let f = AddAddressFrame {
        address: any_socket_addr(v6),
        seq_num: any_varint(),
        tire: any_varint(),
        nat_type: any_nat_type(),
    };
    let fam = if v6 { Family::V6 } else { Family::V4 };
    assert!(f.frame_type() == FrameType::AddAddress(fam));
    let mut arr = [0u8; 39];
    let n = encode_exact(&f, &mut arr);
    let rest = skip_type(&arr[..n], f.frame_type());
    let back = done(be_add_address_frame(fam)(rest));
    assert!(back.seq_num == f.seq_num, "seq_num survives");
    assert!(back.tire == f.tire, "tire survives");
    assert!(back.nat_type == f.nat_type, "nat type survives");
    assert!(back.address == f.address, "socket address survives");
    kani::cover!(v6 && n == 4 + 8 + 18 + 8 + 1, "IPv6, 8-byte varints");
    kani::cover!(!v6 && n == 4 + 1 + 6 + 1 + 1, "IPv4, 1-byte varints");
    kani::cover!(f.nat_type == NatType::Dynamic);
}

/// C05 ADD_ADDRESS (v4/v6, all NAT types), every varint field < 2^62 (quick tier: be_varint replaced by its verified model).
#[kani::proof]
#[kani::stub(core::slice::index::slice_index_fail, stub_slice_index_fail)]
#[kani::unwind(18)]
#[kani::stub(crate::varint::be_varint, model_be_varint)]
fn c05_add_address_roundtrip() {
    body()
}

/// C05 ADD_ADDRESS (v4/v6, all NAT types), every varint field < 2^62 (thorough tier: the real nom be_varint).
#[kani::proof]
#[kani::stub(core::slice::index::slice_index_fail, stub_slice_index_fail)]
#[kani::unwind(18)]
fn c05_add_address_roundtrip_real() {
    body()
}
