// Kani harnesses compiled inside qbase::cid::remote_cid (overlay, cfg(kani) only).  Property C04.
//
// Work and error kinds of RemoteCids::recv_new_cid_frame for ONE NEW_CONNECTION_ID frame with
// arbitrary 62-bit Sequence Number / Retire Prior To (the parser only enforces rpt <= seq).
// Ghost costs, both computed by the REAL arithmetic of the real code:
//   * placeholders: `cid_deque.insert(seq, ..)` -> IndexDeque::insert -> VecDeque::resize(pos, None);
//     the resize primitive is replaced by a recorder that asserts the bound on the REQUESTED growth
//     and then materialises it only if the model container can hold it;
//   * RETIRE_CONNECTION_ID frames: the length (size_hint) of the iterator that retire_prior_to
//     hands to `retired_cids.send_frame(..)`.
// The table has no live path cell (before the first path applies for a cid / all paths abandoned):
// measured by the C14 engineer, one frame into a table with a live Arc<Mutex<CidCell>> does not
// finish symbolic execution; the index arithmetic under test does not depend on the cells.
//
// std VecDeque -> verif_model::VecDeque in this file and in util/index_deque.rs.
use super::*;

fn stub_fmt(_a: core::fmt::Arguments<'_>) -> String {
    String::new()
}

/// NewConnectionIdFrame::new draws a random reset token (rand/getrandom: not compilable by Kani).
fn stub_token() -> ResetToken {
    ResetToken::default()
}

const M62: u64 = 1u64 << 62;

fn cid_of(k: u64) -> ConnectionId {
    let b = k.to_be_bytes();
    let mut bytes = [0u8; crate::cid::MAX_CID_SIZE];
    bytes[0] = b[0];
    bytes[1] = b[1];
    bytes[2] = b[2];
    bytes[3] = b[3];
    bytes[4] = b[4];
    bytes[5] = b[5];
    bytes[6] = b[6];
    bytes[7] = b[7];
    ConnectionId { len: 8, bytes }
}

// ---- ghost: RETIRE_CONNECTION_ID frames requested ---------------------------------------------------
static mut RETIRE_REQ: u64 = 0; // sum of the lengths of the iterators handed to send_frame
static mut RETIRE_FIRST: u64 = 0; // first sequence number of the last batch
static mut RETIRE_CALLS: u32 = 0;

#[derive(Clone, Debug)]
struct Sink;

impl SendFrame<RetireConnectionIdFrame> for Sink {
    fn send_frame<I: IntoIterator<Item = RetireConnectionIdFrame>>(&self, iter: I) {
        let mut it = iter.into_iter();
        let (lo, hi) = it.size_hint();
        assert!(hi == Some(lo), "exact-size batch");
        unsafe {
            RETIRE_REQ += lo as u64;
            RETIRE_CALLS += 1;
        }
        // look at the first frame only (the batch may have 2^62 elements)
        if let Some(f) = it.next() {
            unsafe { RETIRE_FIRST = f.sequence() };
        }
    }
}

// ---- ghost: placeholder records requested -------------------------------------------------------------
static mut PLACEHOLDER_BOUND: u64 = 0;
static mut PLACEHOLDER_REQ: u64 = 0;

/// Replaces verif_model::VecDeque::resize (== std VecDeque::resize in the real build).
fn stub_resize<T: Clone>(this: &mut verif_model::VecDeque<T>, new_len: usize, value: T) {
    let old = this.len();
    assert!(new_len >= old, "IndexDeque::insert only grows");
    let req = (new_len - old) as u64;
    unsafe { PLACEHOLDER_REQ = req };
    assert!(req <= unsafe { PLACEHOLDER_BOUND }, "C04: placeholder records requested by one NEW_CONNECTION_ID frame <= bound");
    // larger requests were reported by the assertion above; materialise what the model can hold
    kani::assume(new_len < verif_model::CAP);
    this.resize_with(new_len, || value.clone());
}

type Table = RemoteCids<Sink>;

/// A table without path cells: N stored entries (symbolic Some/None pattern; None = the
/// NEW_CONNECTION_ID frame of that number has not arrived yet) at the concrete offset `off`
/// (= everything below was retired), cursor == offset.
fn any_table<const N: usize>(off: u64, limit: u64) -> (Table, [bool; N]) {
    unsafe {
        RETIRE_REQ = 0;
        RETIRE_CALLS = 0;
        PLACEHOLDER_REQ = 0;
    }
    let some: [bool; N] = kani::any();
    if N > 0 {
        kani::assume(some[N - 1]); // the newest entry exists because its frame arrived
    }
    let mut t: Table = RemoteCids::new(limit, Sink);
    t.cid_deque.reset_offset(off);
    t.ready_cells.reset_offset(off);
    t.cursor = off;
    let mut i = 0;
    while i < N {
        let s = off + i as u64;
        t.cid_deque.push_back(if some[i] { Some((s, cid_of(s), ResetToken::default())) } else { None }).unwrap();
        i += 1;
    }
    (t, some)
}

/// One frame. `jump_limited`: assume the trigger of the defect away (Sequence Number at most
/// `limit` beyond the newest number seen so far).
fn new_cid_step<const N: usize>(off: u64, jump_limited: bool) {
    let limit: u64 = kani::any();
    kani::assume(limit >= 2 && limit < M62);
    let (mut t, _some) = any_table::<N>(off, limit);
    let largest = off + N as u64;
    let seq: u64 = kani::any();
    let rpt: u64 = kani::any();
    kani::assume(rpt <= seq && seq < M62); // rpt <= seq is enforced by be_new_connection_id_frame
    if jump_limited {
        kani::assume(seq <= largest + limit);
        kani::assume(seq <= off + 3); // container-model capacity (CAP 4)
    }
    unsafe { PLACEHOLDER_BOUND = limit };
    let f = NewConnectionIdFrame::new(cid_of(seq), VarInt::from_u64(seq).unwrap(), VarInt::from_u64(rpt).unwrap());

    let r = t.recv_new_cid_frame(f);

    let placeholders = unsafe { PLACEHOLDER_REQ };
    let retire_frames = unsafe { RETIRE_REQ };
    if seq - rpt > limit {
        // RFC 9000 §5.1.1 / §19.15: more active ids than active_connection_id_limit
        match &r {
            Err(Error::Quic(e)) => {
                assert!(e.kind() == ErrorKind::ConnectionIdLimit, "CONNECTION_ID_LIMIT_ERROR");
                assert!(matches!(e.frame_type(), crate::error::ErrorFrameType::V1(crate::frame::FrameType::NewConnectionId)));
            }
            _ => panic!("C04: a frame that exceeds the advertised active_connection_id_limit must close the connection"),
        }
        assert!(placeholders == 0 && retire_frames == 0 && t.cid_deque.offset() == off && t.cid_deque.len() == N, "a refused frame is not acted on");
    } else if seq < off {
        assert!(matches!(r, Ok(None)), "a number retired earlier is ignored");
        assert!(placeholders == 0 && retire_frames == 0 && t.cid_deque.offset() == off && t.cid_deque.len() == N);
    } else {
        assert!(matches!(r, Ok(Some(_))), "an acceptable frame is accepted");
        // exact ghost costs
        assert!(placeholders == if seq > largest { seq - largest } else { 0 }, "placeholders == gap to the newest known number");
        let new_off = if rpt > off { rpt } else { off };
        assert!(retire_frames == new_off - off, "one RETIRE_CONNECTION_ID per sequence number in [offset, retire_prior_to)");
        if retire_frames > 0 {
            assert!(unsafe { RETIRE_CALLS } == 1 && unsafe { RETIRE_FIRST } == off);
        }
        assert!(t.cid_deque.offset() == new_off && t.ready_cells.offset() == new_off && t.cursor == new_off);
        // bounds in terms of the advertised limit and the state already held
        assert!(retire_frames <= limit + N as u64, "C04: RETIRE_CONNECTION_ID frames per frame <= limit + records held");
    }
    kani::cover!(seq - rpt > limit, "limit exceeded");
    kani::cover!(r.is_ok() && placeholders > 0 && retire_frames > 0, "gap and retirement in one frame");
    kani::cover!(off == 0 || seq < off, "stale number");
    core::mem::forget(r);
    core::mem::forget(t);
}

/// pending (genuine defect found while building C04): `seq` may lie arbitrarily far beyond the
/// newest known sequence number as long as seq - retire_prior_to <= limit; the table then asks for
/// seq - largest placeholder records (and as many RETIRE_CONNECTION_ID frames).
#[kani::proof]
#[kani::unwind(6)]
#[kani::stub(alloc::fmt::format, stub_fmt)]
#[kani::stub(crate::token::ResetToken::random_gen, stub_token)]
#[kani::stub(verif_model::VecDeque::resize, stub_resize)]
fn c04_p_remotecid_new_cid_work_bounded() {
    new_cid_step::<1>(0, false);
}

/// passing twins: Sequence Number at most `limit` beyond the newest known number.
#[kani::proof]
#[kani::unwind(6)]
#[kani::stub(alloc::fmt::format, stub_fmt)]
#[kani::stub(crate::token::ResetToken::random_gen, stub_token)]
#[kani::stub(verif_model::VecDeque::resize, stub_resize)]
fn c04_remotecid_new_cid_step_n1() {
    new_cid_step::<1>(0, true);
}

#[kani::proof]
#[kani::unwind(6)]
#[kani::stub(alloc::fmt::format, stub_fmt)]
#[kani::stub(crate::token::ResetToken::random_gen, stub_token)]
#[kani::stub(verif_model::VecDeque::resize, stub_resize)]
fn c04_remotecid_new_cid_step_n2_slid() {
    new_cid_step::<2>(5, true);
}
