// Kani harnesses compiled *inside* qbase::frame (overlay injection, cfg(kani) only).
// Property C05, frame part: every encodable frame / varint / stream id / connection id decodes back
// to itself, the encoder writes exactly `encoding_size()` <= `max_encoding_size()` bytes (so a frame
// admitted into a packet by `Package::dump`'s size test always fits), and the decoder consumes
// exactly the bytes written.
//
// Shape of every frame harness:
//   symbolic frame value (every varint anywhere in [0, 2^62), every flag combination)
//   -> real `put_frame` / `put_data_frame` into a slice of EXACTLY `encoding_size()` bytes of a fixed
//      array (`&mut [u8]`'s BufMut panics when the encoder writes more: "admitted by size always fits")
//   -> the slice is full afterwards (bytes written == encoding_size()) and encoding_size() <= max_encoding_size()
//   -> real `be_frame_type` on the written bytes == frame.frame_type()
//   -> real inner nom parser -> value equal to the original, nothing left over.
use super::{
    ack::{ack_frame_with_ecn, be_ecn_counts},
    add_address::be_add_address_frame,
    connection_close::connection_close_frame_at_layer,
    crypto::be_crypto_frame,
    data_blocked::be_data_blocked_frame,
    datagram::datagram_frame_with_flag,
    io::{WriteDataFrame, WriteFrame, WriteFrameType},
    max_data::be_max_data_frame,
    max_stream_data::be_max_stream_data_frame,
    max_streams::max_streams_frame_with_dir,
    new_connection_id::be_new_connection_id_frame,
    new_token::be_new_token_frame,
    path_challenge::be_path_challenge_frame,
    path_response::be_path_response_frame,
    punch_done::be_punch_done_frame,
    punch_hello::be_punch_hello_frame,
    punch_me_now::be_punch_me_now_frame,
    remove_address::be_remove_address_frame,
    reset_stream::be_reset_stream_frame,
    retire_connection_id::be_retire_connection_id_frame,
    stop_sending::be_stop_sending_frame,
    stream::stream_frame_with_flag,
    stream_data_blocked::be_stream_data_blocked_frame,
    streams_blocked::streams_blocked_frame_with_dir,
    *,
};
use crate::{
    cid::{ConnectionId, WriteConnectionId, be_connection_id},
    error::{ErrorFrameType, ErrorKind},
    net::NatType,
    sid::{MAX_STREAMS_LIMIT, StreamId, WriteStreamId, be_streamid},
    token::ResetToken,
    varint::{EncodeBytes, VARINT_MAX, WriteVarInt, be_varint},
};

/// Stub for core's slice-index panic path (maintainer's perf note 2): the panic is still reported as
/// a failed check, only the message formatting is cut out of the symbolic execution.
pub(crate) fn stub_slice_index_fail(_s: usize, _e: usize, _l: usize) -> ! {
    panic!("slice index out of range")
}

/// Stub for `alloc::fmt::format` (error *texts* are irrelevant; DESIGN.md §2.3 `no_fmt`).
pub(crate) fn stub_fmt(_a: core::fmt::Arguments<'_>) -> String {
    String::new()
}

/// Model of std's `String::from_utf8_lossy`, EXACT on valid UTF-8 input (std's contract: valid input
/// is returned borrowed, unchanged). Only stubbed into harnesses whose reason phrases are ASCII by
/// assumption; the real decoder's UTF-8 state machine over symbolic bytes costs minutes per byte.
pub(crate) fn model_from_utf8_lossy_ascii(v: &[u8]) -> std::borrow::Cow<'_, str> {
    // SAFETY: callers only pass ASCII (assumed in `any_reason`, re-checked in `reason_eq`)
    std::borrow::Cow::Borrowed(unsafe { core::str::from_utf8_unchecked(v) })
}

// ------------------------------------------------------------------------------------------------
// symbolic values

pub(crate) fn any_varint() -> VarInt {
    let x: u64 = kani::any();
    kani::assume(x <= VARINT_MAX);
    // SAFETY: x < 2^62 (the only invariant of VarInt)
    unsafe { VarInt::from_u64_unchecked(x) }
}

pub(crate) fn any_sid() -> StreamId {
    StreamId::from(any_varint())
}

pub(crate) fn any_dir() -> Dir {
    if kani::any() { Dir::Bi } else { Dir::Uni }
}

pub(crate) fn any_cid(min_len: u8) -> ConnectionId {
    let len: u8 = kani::any();
    kani::assume(len >= min_len && len as usize <= crate::cid::MAX_CID_SIZE);
    let bytes: [u8; crate::cid::MAX_CID_SIZE] = kani::any();
    ConnectionId { len, bytes }
}

pub(crate) fn cid_eq(a: &ConnectionId, b: &ConnectionId) -> bool {
    if a.len != b.len {
        return false;
    }
    let mut i = 0usize;
    let mut same = true;
    while i < crate::cid::MAX_CID_SIZE {
        if i < a.len as usize && a.bytes[i] != b.bytes[i] {
            same = false;
        }
        i += 1;
    }
    same
}

pub(crate) fn any_nat_type() -> NatType {
    let k: u8 = kani::any();
    match k % 6 {
        0 => NatType::Blocked,
        1 => NatType::FullCone,
        2 => NatType::RestrictedCone,
        3 => NatType::RestrictedPort,
        4 => NatType::Symmetric,
        _ => NatType::Dynamic,
    }
}

pub(crate) fn any_socket_addr(v6: bool) -> std::net::SocketAddr {
    let port: u16 = kani::any();
    if v6 {
        let ip: [u8; 16] = kani::any();
        std::net::SocketAddr::new(std::net::IpAddr::V6(std::net::Ipv6Addr::from(ip)), port)
    } else {
        let ip: [u8; 4] = kani::any();
        std::net::SocketAddr::new(std::net::IpAddr::V4(std::net::Ipv4Addr::from(ip)), port)
    }
}

/// Every one of the 26 frame kinds with every flag combination.
pub(crate) fn any_frame_type() -> FrameType {
    let k: u8 = kani::any();
    let f: u8 = kani::any();
    let fam = if f & 1 == 0 { Family::V4 } else { Family::V6 };
    let dir = if f & 1 == 0 { Dir::Bi } else { Dir::Uni };
    match k % 26 {
        0 => FrameType::Padding,
        1 => FrameType::Ping,
        2 => FrameType::Ack(if f & 1 == 0 { Ecn::None } else { Ecn::Exist }),
        3 => FrameType::ResetStream,
        4 => FrameType::StopSending,
        5 => FrameType::Crypto,
        6 => FrameType::NewToken,
        7 => FrameType::Stream(
            if f & 4 == 0 { Offset::Zero } else { Offset::NonZero },
            if f & 2 == 0 { Len::Omit } else { Len::Explicit },
            if f & 1 == 0 { Fin::No } else { Fin::Yes },
        ),
        8 => FrameType::MaxData,
        9 => FrameType::MaxStreamData,
        10 => FrameType::MaxStreams(dir),
        11 => FrameType::DataBlocked,
        12 => FrameType::StreamDataBlocked,
        13 => FrameType::StreamsBlocked(dir),
        14 => FrameType::NewConnectionId,
        15 => FrameType::RetireConnectionId,
        16 => FrameType::PathChallenge,
        17 => FrameType::PathResponse,
        18 => FrameType::ConnectionClose(if f & 1 == 0 { Layer::Quic } else { Layer::App }),
        19 => FrameType::HandshakeDone,
        20 => FrameType::Datagram(f & 1),
        21 => FrameType::AddAddress(fam),
        22 => FrameType::RemoveAddress,
        23 => FrameType::PunchMeNow(fam),
        24 => FrameType::PunchHello,
        _ => FrameType::PunchDone,
    }
}

// ------------------------------------------------------------------------------------------------
// encode / decode helpers

/// Real `put_frame` into a slice of exactly `encoding_size()` bytes. Returns that size.
pub(crate) fn encode_exact<F, const N: usize>(frame: &F, arr: &mut [u8; N]) -> usize
where
    F: EncodeSize,
    for<'a> &'a mut [u8]: WriteFrame<F>,
{
    let size = frame.encoding_size();
    let max = frame.max_encoding_size();
    assert!(size <= max, "encoding_size() never exceeds max_encoding_size()");
    assert!(size <= N, "harness buffer large enough for the frame under test");
    let mut buf: &mut [u8] = &mut arr[..size];
    buf.put_frame(frame);
    assert!(buf.is_empty(), "bytes written == encoding_size()");
    size
}

/// Skip the frame type and check it is the frame's own type, at wire level: the first bytes of
/// the encoded frame must be exactly the bytes the real `put_frame_type(frame.frame_type())`
/// writes (1 byte, or 4 for the 0x3d7e9x extension types). `c05_frame_type_roundtrip` proves, for
/// every frame type and any following bytes, that the real `be_frame_type` maps exactly these
/// bytes back to the type and consumes nothing else. (Calling `be_frame_type` in every frame
/// harness costs one more bit-level nom varint parse plus its `format!` error path, ~2x per harness.)
pub(crate) fn skip_type(wire: &[u8], expect: FrameType) -> &[u8] {
    let fty: VarInt = expect.into();
    let k = fty.encoding_size();
    let mut scratch = [0u8; 8];
    {
        let mut buf: &mut [u8] = &mut scratch[..];
        buf.put_frame_type(expect);
        assert!(8 - buf.len() == k);
    }
    assert!(k == 1 || k == 4);
    assert!(wire.len() >= k, "frame starts with its type");
    assert!(wire[0] == scratch[0], "frame type on the wire == frame.frame_type()");
    if k == 4 {
        assert!(wire[1] == scratch[1] && wire[2] == scratch[2] && wire[3] == scratch[3]);
    }
    &wire[k..]
}

/// Same with the real `be_frame_type` (needs the `alloc::fmt::format` stub).
fn skip_type_real(wire: &[u8], expect: FrameType) -> &[u8] {
    match be_frame_type(wire) {
        Ok((remain, ty)) => {
            assert!(ty == expect, "frame type on the wire == frame.frame_type()");
            let fty: VarInt = expect.into();
            assert!(wire.len() - remain.len() == fty.encoding_size());
            remain
        }
        Err(e) => {
            core::mem::forget(e);
            panic!("frame type written by put_frame does not parse")
        }
    }
}

/// Unwrap a nom result without dragging the Debug machinery of `Result::unwrap` in.
pub(crate) fn done<'a, T>(r: nom::IResult<&'a [u8], T>) -> T {
    match r {
        Ok((rest, v)) => {
            assert!(rest.is_empty(), "decoder consumes exactly the bytes written");
            v
        }
        Err(e) => {
            core::mem::forget(e);
            panic!("encoded frame does not parse")
        }
    }
}

/// Wire-layout lemma for multi-field frames: the varint `v` sits at position `*p` of the encoded
/// frame `arr[..n]`, minimally encoded (RFC 9000 §16), checked with plain byte arithmetic.
/// Asserted, then assumed (cut rule: sound, the assertion is checked first). Besides being an
/// oracle for the RFC field ORDER on the wire, the lemma tells the solver where each field is, so the
/// decoder's running position collapses to the encoder's (without it a frame with k symbolic-size
/// varints needs ~4^k case splits: ACK does not finish).
pub(crate) fn wire_varint<const N: usize>(arr: &[u8; N], p: &mut usize, n: usize, v: VarInt) {
    let s = v.encoding_size();
    let at = *p;
    let mut ok = n <= N && at < n && s <= n - at;
    if ok {
        let b0 = arr[at];
        let mut x = (b0 & 0x3f) as u64;
        if s >= 2 {
            x = (x << 8) | arr[at + 1] as u64;
        }
        if s >= 4 {
            x = (x << 8) | arr[at + 2] as u64;
            x = (x << 8) | arr[at + 3] as u64;
        }
        if s == 8 {
            x = (x << 8) | arr[at + 4] as u64;
            x = (x << 8) | arr[at + 5] as u64;
            x = (x << 8) | arr[at + 6] as u64;
            x = (x << 8) | arr[at + 7] as u64;
        }
        ok = (1usize << (b0 >> 6)) == s && x == v.into_u64();
    }
    assert!(ok, "varint field sits at its RFC position on the wire, minimally encoded");
    kani::assume(ok);
    *p = at + s;
}

// ------------------------------------------------------------------------------------------------
// scalar codecs

/// C05 varint: forall x < 2^62: put_varint writes encoding_size() bytes (minimal length class,
/// RFC 9000 §16) and be_varint returns x consuming exactly those bytes.
fn rt_varint_roundtrip() {
    let v = any_varint();
    let x = v.into_u64();
    let mut arr = [0u8; 8];
    let size = v.encoding_size();
    assert!(
        size == if x < 64 { 1 } else if x < 16384 { 2 } else if x < (1 << 30) { 4 } else { 8 }
    );
    {
        let mut buf: &mut [u8] = &mut arr[..size];
        buf.put_varint(&v);
        assert!(buf.is_empty());
    }
    assert!(arr[0] >> 6 == match size { 1 => 0, 2 => 1, 4 => 2, _ => 3 }, "2-bit length prefix");
    let back = done(be_varint(&arr[..size]));
    assert!(back == v);
    kani::cover!(x == 0);
    kani::cover!(x == 63);
    kani::cover!(x == 64);
    kani::cover!(x == 16383);
    kani::cover!(x == 16384);
    kani::cover!(x == (1 << 30) - 1);
    kani::cover!(x == 1 << 30);
    kani::cover!(x == VARINT_MAX);
}

/// C05 varint, explicit-width encoder: `encode_varint(v, nbytes)` for every width that can hold v
/// writes exactly nbytes and be_varint returns v (non-minimal encodings are legal on the wire).
fn rt_varint_encode_width_roundtrip() {
    let v = any_varint();
    let x = v.into_u64();
    let w: u8 = kani::any();
    let (nbytes, n) = match w % 4 {
        0 => (EncodeBytes::One, 1usize),
        1 => (EncodeBytes::Two, 2),
        2 => (EncodeBytes::Four, 4),
        _ => (EncodeBytes::Eight, 8),
    };
    kani::assume(n >= v.encoding_size());
    let mut arr = [0u8; 8];
    {
        let mut buf: &mut [u8] = &mut arr[..n];
        buf.encode_varint(&v, nbytes);
        assert!(buf.is_empty());
    }
    let back = done(be_varint(&arr[..n]));
    assert!(back == v);
    kani::cover!(n == 8 && x == 0, "zero in 8 bytes");
    kani::cover!(n == 2 && x == 16383);
}

/// C05 stream id: any 62-bit id round-trips; role/dir/index are the RFC 9000 §2.1 bit fields.
fn rt_streamid_roundtrip() {
    let sid = any_sid();
    let raw: u64 = sid.into();
    let mut arr = [0u8; 8];
    let size = sid.encoding_size();
    {
        let mut buf: &mut [u8] = &mut arr[..size];
        buf.put_streamid(&sid);
        assert!(buf.is_empty());
    }
    let back = done(be_streamid(&arr[..size]));
    assert!(back == sid);
    assert!(back.id() == raw >> 2);
    assert!((back.dir() == Dir::Uni) == (raw & 2 != 0));
    assert!((back.role() == crate::role::Role::Server) == (raw & 1 != 0));
    // constructor agrees with the accessors
    let idx: u64 = kani::any();
    kani::assume(idx <= MAX_STREAMS_LIMIT);
    let made = StreamId::new(back.role(), back.dir(), idx);
    assert!(made.id() == idx && made.dir() == back.dir() && made.role() == back.role());
    kani::cover!(size == 8);
    kani::cover!(size == 1);
}

/// C05 connection id: any cid of length 0..=20 round-trips through put_connection_id /
/// be_connection_id in encoding_size() == 1 + len bytes.
fn rt_cid_roundtrip() {
    let cid = any_cid(0);
    let mut arr = [0u8; 21];
    let size = cid.encoding_size();
    assert!(size == 1 + cid.len as usize);
    {
        let mut buf: &mut [u8] = &mut arr[..size];
        buf.put_connection_id(&cid);
        assert!(buf.is_empty());
    }
    assert!(arr[0] == cid.len);
    let back = done(be_connection_id(&arr[..size]));
    assert!(cid_eq(&back, &cid));
    assert!(back == cid, "the type's own PartialEq agrees");
    kani::cover!(cid.len == 0);
    kani::cover!(cid.len == 20);
}

/// C05 frame type: every frame type (26 kinds x flags) written by put_frame_type parses back to
/// itself with the real be_frame_type, in VarInt::from(type).encoding_size() bytes (1, or 4 for the
/// 0x3d7e9x extension types), whatever bytes follow; the type's VarInt image is the RFC 9000 /
/// gm-quic extension code point and `try_from` inverts `into`.
#[kani::proof]
#[kani::stub(core::slice::index::slice_index_fail, stub_slice_index_fail)]
#[kani::unwind(10)]
#[kani::stub(alloc::fmt::format, stub_fmt)]
fn c05_frame_type_roundtrip() {
    let ty = any_frame_type();
    let v: VarInt = ty.into();
    let size = v.encoding_size();
    let mut arr: [u8; 8] = kani::any(); // arbitrary following bytes
    let total: usize = kani::any();
    kani::assume(total >= size && total <= 8);
    {
        let mut buf: &mut [u8] = &mut arr[..size];
        buf.put_frame_type(ty);
        assert!(buf.is_empty());
    }
    let rest = skip_type_real(&arr[..total], ty);
    assert!(rest.len() == total - size, "only the type's own bytes are consumed");
    assert!(size == 1 || size == 4);
    match FrameType::try_from(v) {
        Ok(back) => assert!(back == ty),
        Err(e) => {
            core::mem::forget(e);
            panic!("try_from does not invert into")
        }
    }
    let code = v.into_u64();
    assert!(code <= 0x1e || code == 0x30 || code == 0x31 || (code >= 0x3d7e90 && code <= 0x3d7e96));
    kani::cover!(size == 4, "extension frame type");
    kani::cover!(code == 0x0f, "STREAM with OFF|LEN|FIN");
    kani::cover!(code == 0x31);
    kani::cover!(code == 0x3d7e93);
}

// ------------------------------------------------------------------------------------------------
// frames without payload

/// C05 PADDING / PING / HANDSHAKE_DONE: one type byte, nothing else.
fn rt_empty_frames_roundtrip() {
    let mut arr = [0u8; 4];
    let which: u8 = kani::any();
    match which % 3 {
        0 => {
            let f = PaddingFrame;
            let n = encode_exact(&f, &mut arr);
            assert!(n == 1 && arr[0] == 0x00);
            let rest = skip_type(&arr[..n], f.frame_type());
            let _ = done(super::padding::be_padding_frame(rest));
        }
        1 => {
            let f = PingFrame;
            let n = encode_exact(&f, &mut arr);
            assert!(n == 1 && arr[0] == 0x01);
            let rest = skip_type(&arr[..n], f.frame_type());
            let _ = done(super::ping::be_ping_frame(rest));
        }
        _ => {
            let f = HandshakeDoneFrame;
            let n = encode_exact(&f, &mut arr);
            assert!(n == 1 && arr[0] == 0x1e);
            let rest = skip_type(&arr[..n], f.frame_type());
            let _ = done(super::handshake_done::be_handshake_done_frame(rest));
            kani::cover!(true, "handshake done");
        }
    }
}

// ------------------------------------------------------------------------------------------------
// single-varint frames

/// C05 MAX_DATA.
fn rt_max_data_roundtrip() {
    let f = MaxDataFrame::new(any_varint());
    let mut arr = [0u8; 9];
    let n = encode_exact(&f, &mut arr);
    let rest = skip_type(&arr[..n], f.frame_type());
    let back = done(be_max_data_frame(rest));
    assert!(back == f && back.max_data() == f.max_data());
    kani::cover!(n == 9);
    kani::cover!(n == 2);
}

/// C05 DATA_BLOCKED.
fn rt_data_blocked_roundtrip() {
    let f = DataBlockedFrame::new(any_varint());
    let mut arr = [0u8; 9];
    let n = encode_exact(&f, &mut arr);
    let rest = skip_type(&arr[..n], f.frame_type());
    let back = done(be_data_blocked_frame(rest));
    assert!(back == f && back.limit() == f.limit());
    kani::cover!(n == 9);
}

/// C05 RETIRE_CONNECTION_ID.
fn rt_retire_connection_id_roundtrip() {
    let f = RetireConnectionIdFrame::new(any_varint());
    let mut arr = [0u8; 9];
    let n = encode_exact(&f, &mut arr);
    let rest = skip_type(&arr[..n], f.frame_type());
    let back = done(be_retire_connection_id_frame(rest));
    assert!(back == f && back.sequence() == f.sequence());
    kani::cover!(n == 5);
}

/// C05 MAX_STREAMS (both directions). The decoder rejects values above 2^60-1 (RFC 9000 §19.11),
/// so the round trip is claimed for max_streams <= 2^60-1 and rejection is asserted above it.
fn rt_max_streams_roundtrip() {
    let dir = any_dir();
    let v = any_varint();
    let f = MaxStreamsFrame::with(dir, v);
    let mut arr = [0u8; 9];
    let n = encode_exact(&f, &mut arr);
    assert!(arr[0] == if dir == Dir::Bi { 0x12 } else { 0x13 });
    let rest = skip_type(&arr[..n], f.frame_type());
    let r = max_streams_frame_with_dir(dir)(rest);
    if v.into_u64() <= MAX_STREAMS_LIMIT {
        let back = done(r);
        assert!(back == f);
        kani::cover!(dir == Dir::Uni && n == 9);
    } else {
        assert!(r.is_err(), "MAX_STREAMS above 2^60-1 is rejected");
        kani::cover!(true, "over-limit value rejected");
        core::mem::forget(r);
    }
}

/// C05 STREAMS_BLOCKED (both directions).
fn rt_streams_blocked_roundtrip() {
    let dir = any_dir();
    let v = any_varint();
    let f = StreamsBlockedFrame::with(dir, v);
    let mut arr = [0u8; 9];
    let n = encode_exact(&f, &mut arr);
    assert!(arr[0] == if dir == Dir::Bi { 0x16 } else { 0x17 });
    let rest = skip_type(&arr[..n], f.frame_type());
    let r = streams_blocked_frame_with_dir(dir)(rest);
    if v.into_u64() > MAX_STREAMS_LIMIT {
        // RFC 9000 §19.14: not a valid value on the wire (same rule as MAX_STREAMS)
        assert!(r.is_err(), "STREAMS_BLOCKED above 2^60-1 is rejected");
        core::mem::forget(r);
        return;
    }
    let back = done(r);
    assert!(back == f);
    kani::cover!(dir == Dir::Uni && n == 9);
    kani::cover!(dir == Dir::Bi && n == 2);
}

/// C05 REMOVE_ADDRESS (4-byte extension frame type).
fn rt_remove_address_roundtrip() {
    let f = RemoveAddressFrame { seq_num: any_varint() };
    let mut arr = [0u8; 12];
    let n = encode_exact(&f, &mut arr);
    let rest = skip_type(&arr[..n], f.frame_type());
    let back = done(be_remove_address_frame(rest));
    assert!(back == f);
    kani::cover!(n == 12);
    kani::cover!(n == 5);
}

// ------------------------------------------------------------------------------------------------
// stream-control frames

/// C05 RESET_STREAM.
fn rt_reset_stream_roundtrip() {
    let f = ResetStreamFrame::new(any_sid(), any_varint(), any_varint());
    let mut arr = [0u8; 25];
    let n = encode_exact(&f, &mut arr);
    let rest = skip_type(&arr[..n], f.frame_type());
    let back = done(be_reset_stream_frame(rest));
    assert!(back.stream_id() == f.stream_id());
    assert!(back.app_error_code() == f.app_error_code());
    assert!(back.final_size() == f.final_size());
    assert!(back == f);
    kani::cover!(n == 25);
    kani::cover!(n == 4);
}

/// C05 STOP_SENDING.
fn rt_stop_sending_roundtrip() {
    let f = StopSendingFrame::new(any_sid(), any_varint());
    let mut arr = [0u8; 17];
    let n = encode_exact(&f, &mut arr);
    let rest = skip_type(&arr[..n], f.frame_type());
    let back = done(be_stop_sending_frame(rest));
    assert!(back.stream_id() == f.stream_id() && back.app_err_code() == f.app_err_code());
    assert!(back == f);
    kani::cover!(n == 17);
}

/// C05 MAX_STREAM_DATA.
fn rt_max_stream_data_roundtrip() {
    let f = MaxStreamDataFrame::new(any_sid(), any_varint());
    let mut arr = [0u8; 17];
    let n = encode_exact(&f, &mut arr);
    let rest = skip_type(&arr[..n], f.frame_type());
    let back = done(be_max_stream_data_frame(rest));
    assert!(back.stream_id() == f.stream_id() && back.max_stream_data() == f.max_stream_data());
    assert!(back == f);
    kani::cover!(n == 17);
}

/// C05 STREAM_DATA_BLOCKED.
fn rt_stream_data_blocked_roundtrip() {
    let f = StreamDataBlockedFrame::new(any_sid(), any_varint());
    let mut arr = [0u8; 17];
    let n = encode_exact(&f, &mut arr);
    let rest = skip_type(&arr[..n], f.frame_type());
    let back = done(be_stream_data_blocked_frame(rest));
    assert!(
        back.stream_id() == f.stream_id() && back.maximum_stream_data() == f.maximum_stream_data()
    );
    assert!(back == f);
    kani::cover!(n == 17);
}

/// C05 the StreamCtlFrame / ReliableFrame sum-type encoders dispatch to the same bytes and sizes as
/// the member frame's own encoder (checked on one member with two fields).
fn rt_sum_type_dispatch_roundtrip() {
    let inner = StopSendingFrame::new(any_sid(), any_varint());
    let ctl = StreamCtlFrame::StopSending(inner);
    let rel = ReliableFrame::StreamCtl(ctl);
    assert!(ctl.frame_type() == inner.frame_type() && rel.frame_type() == inner.frame_type());
    assert!(ctl.encoding_size() == inner.encoding_size() && rel.encoding_size() == inner.encoding_size());
    assert!(ctl.max_encoding_size() == inner.max_encoding_size());
    assert!(rel.max_encoding_size() == inner.max_encoding_size());
    let (mut a0, mut a1, mut a2) = ([0u8; 17], [0u8; 17], [0u8; 17]);
    let n0 = encode_exact(&inner, &mut a0);
    let n1 = encode_exact(&ctl, &mut a1);
    let n2 = encode_exact(&rel, &mut a2);
    assert!(n0 == n1 && n1 == n2);
    let k: usize = kani::any();
    kani::assume(k < 17);
    assert!(a0[k] == a1[k] && a1[k] == a2[k], "the sum-type encoders write the member frame's bytes");
    kani::cover!(n0 == 17);
}

// ------------------------------------------------------------------------------------------------
// fixed 8-byte payload frames

/// C05 PATH_CHALLENGE / PATH_RESPONSE.
fn rt_path_frames_roundtrip() {
    let data: [u8; 8] = kani::any();
    let ch = PathChallengeFrame::from_slice(&data);
    let mut arr = [0u8; 9];
    let n = encode_exact(&ch, &mut arr);
    assert!(n == 9);
    let rest = skip_type(&arr[..n], ch.frame_type());
    let back = done(be_path_challenge_frame(rest));
    assert!(*back == data, "challenge data survives");
    let resp = PathResponseFrame::from(ch);
    assert!(*resp == data, "response echoes the challenge");
    let mut arr2 = [0u8; 9];
    let n2 = encode_exact(&resp, &mut arr2);
    assert!(n2 == 9);
    let rest2 = skip_type(&arr2[..n2], resp.frame_type());
    let back2 = done(be_path_response_frame(rest2));
    assert!(*back2 == data, "response data survives");
    kani::cover!(data[7] == 0xff && data[0] == 1);
}

// ------------------------------------------------------------------------------------------------
// Frames whose fields are private to their module and whose public constructors cannot produce every
// value (u32-only constructors, random reset token) — NEW_CONNECTION_ID, ADD_ADDRESS, PUNCH_ME_NOW,
// PUNCH_HELLO, PUNCH_DONE — have their full-range round-trip harnesses compiled inside their own
// modules (frames_c05_in_*.rs). Here: the public constructors put the fields on the wire in the
// documented order (byte-level oracle, no decoder involved).

/// C05 PUNCH_HELLO / PUNCH_DONE built with the public (u32) constructors: the wire carries the
/// fields in the order local_seq, remote_seq, probe_id and `respond_to` mirrors the sequence numbers.
fn rt_punch_ctor_wire_order() {
    let (a, b, c): (u32, u32, u32) = (kani::any(), kani::any(), kani::any());
    kani::assume(a < 64 && b < 64 && c < 64);
    let hello = PunchHelloFrame::new(a, b, c);
    let mut arr = [0u8; 28];
    let n = encode_exact(&hello, &mut arr);
    assert!(n == 7);
    assert!(arr[4] == a as u8 && arr[5] == b as u8 && arr[6] == c as u8);
    let done_f = PunchDoneFrame::respond_to(&hello);
    assert!(done_f.local_seq() == b && done_f.remote_seq() == a && done_f.probe_id() == c);
    let mut arr2 = [0u8; 28];
    let n2 = encode_exact(&done_f, &mut arr2);
    assert!(n2 == 7);
    assert!(arr2[4] == b as u8 && arr2[5] == a as u8 && arr2[6] == c as u8);
    kani::cover!(a == 1 && b == 2 && c == 3);
}

/// C05 ADD_ADDRESS built with the public constructor: field order on the wire
/// (seq, port, ip, tire, nat type) and accessors.
fn rt_add_address_ctor_wire_order() {
    let (seq, tire): (u32, u32) = (kani::any(), kani::any());
    kani::assume(seq < 64 && tire < 64);
    let nat = any_nat_type();
    let addr = any_socket_addr(false);
    let f = AddAddressFrame::new(seq, addr, tire, nat);
    let mut arr = [0u8; 39];
    let n = encode_exact(&f, &mut arr);
    assert!(n == 4 + 1 + 6 + 1 + 1);
    assert!(arr[4] == seq as u8);
    assert!(u16::from_be_bytes([arr[5], arr[6]]) == addr.port());
    match addr.ip() {
        std::net::IpAddr::V4(ip) => assert!(ip.octets() == [arr[7], arr[8], arr[9], arr[10]]),
        _ => unreachable!(),
    }
    assert!(arr[11] == tire as u8 && arr[12] == nat as u8);
    let rest = skip_type(&arr[..n], f.frame_type());
    assert!(rest.len() == 9);
    assert!(f.seq_num() == seq && f.tire() == tire && f.nat_type() == nat && *f == addr);
    kani::cover!(nat == NatType::Symmetric);
}

/// C05 PUNCH_ME_NOW built with the public constructor: field order on the wire
/// (local_seq, remote_seq, port, ip, tire, nat type).
fn rt_punch_me_now_ctor_wire_order() {
    let (l, r, tire): (u32, u32, u32) = (kani::any(), kani::any(), kani::any());
    kani::assume(l < 64 && r < 64 && tire < 64);
    let nat = any_nat_type();
    let addr = any_socket_addr(false);
    let f = PunchMeNowFrame::new(l, r, addr, tire, nat);
    let mut arr = [0u8; 47];
    let n = encode_exact(&f, &mut arr);
    assert!(n == 4 + 1 + 1 + 6 + 1 + 1);
    assert!(arr[4] == l as u8 && arr[5] == r as u8);
    assert!(u16::from_be_bytes([arr[6], arr[7]]) == addr.port());
    match addr.ip() {
        std::net::IpAddr::V4(ip) => assert!(ip.octets() == [arr[8], arr[9], arr[10], arr[11]]),
        _ => unreachable!(),
    }
    assert!(arr[12] == tire as u8 && arr[13] == nat as u8);
    let rest = skip_type(&arr[..n], f.frame_type());
    assert!(rest.len() == 10);
    assert!(f.local_seq() == l && f.remote_seq() == r && f.tire() == tire);
    assert!(f.nat_type() == nat && f.address() == addr);
    kani::cover!(nat == NatType::RestrictedPort);
}

// ------------------------------------------------------------------------------------------------
// ACK

/// C05 ACK with N additional ranges, with and without ECN counts. Every field is an arbitrary
/// varint: the codec round-trips field values whether or not they describe a consistent set of
/// packet numbers (consistency is a C04 concern, `AckFrame::iter` is not exercised here).
fn ack_roundtrip<const N: usize>(with_ecn: bool) {
    let (largest, delay, first_range) = (any_varint(), any_varint(), any_varint());
    let mut ranges = Vec::with_capacity(N);
    let mut expect = [(VarInt::default(), VarInt::default()); 3];
    let mut i = 0;
    while i < N {
        let r = (any_varint(), any_varint());
        expect[i] = r;
        ranges.push(r);
        i += 1;
    }
    let ecn = if with_ecn { Some(EcnCounts::new(any_varint(), any_varint(), any_varint())) } else { None };
    let f = AckFrame::new(largest, delay, first_range, ranges, ecn);
    assert!(f.frame_type() == FrameType::Ack(if ecn.is_some() { Ecn::Exist } else { Ecn::None }));
    let mut arr = [0u8; 1 + 4 * 8 + 3 * 16 + 24];
    let n = encode_exact(&f, &mut arr);
    assert!(arr[0] == if ecn.is_some() { 0x03 } else { 0x02 });
    // RFC 9000 §19.3 field order on the wire
    let mut p = 1;
    wire_varint(&arr, &mut p, n, largest);
    wire_varint(&arr, &mut p, n, delay);
    wire_varint(&arr, &mut p, n, VarInt::from_u32(N as u32));
    wire_varint(&arr, &mut p, n, first_range);
    let mut i = 0;
    while i < N {
        wire_varint(&arr, &mut p, n, expect[i].0);
        wire_varint(&arr, &mut p, n, expect[i].1);
        i += 1;
    }
    if let Some(e) = ecn {
        wire_varint(&arr, &mut p, n, VarInt::from_u64(e.ect0()).unwrap());
        wire_varint(&arr, &mut p, n, VarInt::from_u64(e.ect1()).unwrap());
        wire_varint(&arr, &mut p, n, VarInt::from_u64(e.ce()).unwrap());
    }
    assert!(p == n, "nothing else on the wire");
    let rest = skip_type(&arr[..n], f.frame_type());
    let flag = if ecn.is_some() { Ecn::Exist } else { Ecn::None };
    let back = done(ack_frame_with_ecn(flag)(rest));
    assert!(back.largest() == largest.into_u64());
    assert!(back.delay() == delay.into_u64());
    assert!(back.first_range() == first_range.into_u64());
    assert!(back.ranges().len() == N);
    let mut i = 0;
    while i < N {
        assert!(back.ranges()[i] == expect[i], "(gap, length) pair survives in order");
        i += 1;
    }
    assert!(back.ecn() == ecn);
    match (back.ecn(), ecn) {
        (Some(b), Some(e)) => {
            assert!(b.ect0() == e.ect0() && b.ect1() == e.ect1() && b.ce() == e.ce());
        }
        (None, None) => {}
        _ => panic!("ECN section appears iff the type says so"),
    }
    kani::cover!(n == 1 + 4 * 8 - 7 + N * 16 + if with_ecn { 24 } else { 0 }, "8-byte fields, 1-byte range count");
    kani::cover!(n == 1 + 4 + N * 2 + if with_ecn { 3 } else { 0 }, "all 1-byte fields");
    core::mem::forget(back);
    core::mem::forget(f);
}

// ------------------------------------------------------------------------------------------------
// NEW_TOKEN

const TOK: usize = 8;

/// C05 NEW_TOKEN with a token of symbolic length 0..=8 and arbitrary bytes.
fn rt_new_token_roundtrip() {
    let bytes: [u8; TOK] = kani::any();
    let len: usize = kani::any();
    kani::assume(len <= TOK);
    let f = NewTokenFrame::from_slice(&bytes[..len]);
    let mut arr = [0u8; 2 + TOK];
    let n = encode_exact(&f, &mut arr);
    assert!(n == 2 + len && arr[1] as usize == len);
    let rest = skip_type(&arr[..n], f.frame_type());
    let back = done(be_new_token_frame(rest));
    assert!(back.token().len() == len);
    let mut i = 0;
    while i < TOK {
        if i < len {
            assert!(back.token()[i] == bytes[i]);
        }
        i += 1;
    }
    kani::cover!(len == 0, "empty token");
    kani::cover!(len == TOK, "longest token in the bound");
    core::mem::forget(back);
    core::mem::forget(f);
}

/// C05 (genuine defect on the pinned tree, fixed in /repo; kept so that a regression is reported): NEW_TOKEN with a 64-byte token. `encoding_size()` and
/// `max_encoding_size()` hard-code ONE byte for the token-length varint (`1 + 1 + len`), but
/// `put_frame` writes `put_varint(len)`, which takes two bytes from len = 64 on: the frame is
/// admitted by `Package::dump` into 66 bytes of room and then writes 67.
#[kani::proof]
#[kani::stub(core::slice::index::slice_index_fail, stub_slice_index_fail)]
#[kani::unwind(10)]
fn c05_new_token_len64_size() {
    let token = [0u8; 64];
    let f = NewTokenFrame::from_slice(&token);
    let mut arr = [0u8; 80];
    let before = arr.len();
    let after = {
        let mut buf: &mut [u8] = &mut arr[..];
        buf.put_frame(&f);
        buf.len()
    };
    let written = before - after;
    kani::cover!(written == 67);
    assert!(written == f.encoding_size(), "bytes written == encoding_size()");
    assert!(written <= f.max_encoding_size(), "bytes written <= max_encoding_size()");
    core::mem::forget(f);
}

// ------------------------------------------------------------------------------------------------
// CONNECTION_CLOSE

const REASON: usize = 8;

fn any_error_kind() -> ErrorKind {
    let k: u8 = kani::any();
    let x: u8 = kani::any();
    match k % 18 {
        0 => ErrorKind::None,
        1 => ErrorKind::Internal,
        2 => ErrorKind::ConnectionRefused,
        3 => ErrorKind::FlowControl,
        4 => ErrorKind::StreamLimit,
        5 => ErrorKind::StreamState,
        6 => ErrorKind::FinalSize,
        7 => ErrorKind::FrameEncoding,
        8 => ErrorKind::TransportParameter,
        9 => ErrorKind::ConnectionIdLimit,
        10 => ErrorKind::ProtocolViolation,
        11 => ErrorKind::InvalidToken,
        12 => ErrorKind::Application,
        13 => ErrorKind::CryptoBufferExceeded,
        14 => ErrorKind::KeyUpdate,
        15 => ErrorKind::AeadLimitReached,
        16 => ErrorKind::NoViablePath,
        _ => ErrorKind::Crypto(x),
    }
}

/// An ASCII reason phrase of symbolic length 0..=REASON (valid UTF-8 by construction, so the
/// decoder's `from_utf8_lossy` is the identity on it).
fn any_reason(bytes: &[u8; REASON], len: usize) -> String {
    let mut i = 0;
    while i < REASON {
        kani::assume(bytes[i] < 0x80);
        i += 1;
    }
    // SAFETY: all bytes are ASCII
    unsafe { String::from_utf8_unchecked(bytes[..len].to_vec()) }
}

fn reason_eq(got: &str, bytes: &[u8; REASON], len: usize) -> bool {
    if got.len() != len {
        return false;
    }
    let g = got.as_bytes();
    let mut same = true;
    let mut i = 0;
    while i < REASON {
        if i < len && g[i] != bytes[i] {
            same = false;
        }
        i += 1;
    }
    same
}

/// C05 CONNECTION_CLOSE, application layer (0x1d): any error code, ASCII reason of length L.
fn rt_close_app_roundtrip<const L: usize>() {
    let bytes: [u8; REASON] = kani::any();
    let len: usize = L; // concrete per instance: symbolic-length copies (String, Cow, put_slice,
                        // take, into_owned) blow up CBMC's array post-processing
    let code = any_varint();
    let f = ConnectionCloseFrame::new_app(code, any_reason(&bytes, len));
    let mut arr = [0u8; 1 + 8 + 1 + REASON];
    let n = encode_exact(&f, &mut arr);
    assert!(arr[0] == 0x1d);
    let rest = skip_type(&arr[..n], f.frame_type());
    let back = done(connection_close_frame_at_layer(Layer::App)(rest));
    match &back {
        ConnectionCloseFrame::App(a) => {
            assert!(a.error_code() == code.into_u64());
            assert!(reason_eq(a.reason(), &bytes, len));
        }
        ConnectionCloseFrame::Quic(_) => panic!("layer changed"),
    }
    kani::cover!(n == 3 + len, "1-byte error code");
    kani::cover!(n == 1 + 8 + 1 + len, "8-byte error code");
    core::mem::forget(back);
    core::mem::forget(f);
}

/// C05 CONNECTION_CLOSE, transport layer (0x1c): every error kind (incl. every CRYPTO_ERROR code),
/// the offending frame type any of the 21 RFC 9000 kinds x flags (1-byte frame types; the 4-byte
/// extension types are the pending twin below), ASCII reason of length 0..=8.
fn rt_close_quic_roundtrip<const L: usize>() {
    let bytes: [u8; REASON] = kani::any();
    let len: usize = L;
    let kind = any_error_kind();
    let fty = any_frame_type();
    kani::assume(VarInt::from(fty).encoding_size() == 1);
    let f = ConnectionCloseFrame::new_quic(kind, ErrorFrameType::V1(fty), any_reason(&bytes, len));
    let mut arr = [0u8; 1 + 2 + 1 + 1 + REASON];
    let n = encode_exact(&f, &mut arr);
    assert!(arr[0] == 0x1c);
    let rest = skip_type(&arr[..n], f.frame_type());
    let back = done(connection_close_frame_at_layer(Layer::Quic)(rest));
    match &back {
        ConnectionCloseFrame::Quic(q) => {
            assert!(q.error_kind() == kind);
            assert!(q.frame_type() == ErrorFrameType::V1(fty));
            assert!(reason_eq(q.reason(), &bytes, len));
        }
        ConnectionCloseFrame::App(_) => panic!("layer changed"),
    }
    kani::cover!(matches!(kind, ErrorKind::Crypto(0xff)) && n == 1 + 2 + 1 + 1 + len);
    kani::cover!(matches!(fty, FrameType::Stream(..)));
    kani::cover!(matches!(fty, FrameType::Datagram(1)));
    core::mem::forget(back);
    core::mem::forget(f);
}

/// C05 (genuine defect on the pinned tree, fixed in /repo; kept so that a regression is reported): CONNECTION_CLOSE (0x1c) whose Frame Type field is one
/// of gm-quic's own 4-byte extension frame types (ADD_ADDRESS 0x3d7e90.., PUNCH_*): `encoding_size()`
/// hard-codes ONE byte for the frame-type field, `put_frame` writes `put_varint(frame_type)` = 4
/// bytes. Such a frame is produced by `QuicError::new(kind, fty.into(), ..)` for any error raised
/// while handling one of those frames, e.g. `frame::Error::ParseError(AddAddress, ..)`.
#[kani::proof]
#[kani::stub(core::slice::index::slice_index_fail, stub_slice_index_fail)]
#[kani::unwind(12)]
fn c05_close_quic_ext_type_size() {
    let kind = any_error_kind();
    let fty = any_frame_type();
    kani::assume(VarInt::from(fty).encoding_size() == 4);
    let f = ConnectionCloseFrame::new_quic(kind, ErrorFrameType::V1(fty), "");
    let mut arr = [0u8; 16];
    let before = arr.len();
    let after = {
        let mut buf: &mut [u8] = &mut arr[..];
        buf.put_frame(&f);
        buf.len()
    };
    let written = before - after;
    kani::cover!(written == 1 + 1 + 4 + 1);
    assert!(written <= f.max_encoding_size(), "bytes written <= max_encoding_size()");
    assert!(written == f.encoding_size(), "bytes written == encoding_size()");
    core::mem::forget(f);
}

// ------------------------------------------------------------------------------------------------
// STREAM / CRYPTO / DATAGRAM (frames with a data body)

const CAP: usize = 72;
static SEQ: [u8; CAP] = {
    let mut a = [0u8; CAP];
    let mut i = 0;
    while i < CAP {
        a[i] = 0x80 | i as u8;
        i += 1;
    }
    a
};

/// C05 STREAM, the size-admission arithmetic, for every packet room up to a full 64 KiB datagram:
/// whatever `estimate_max_capacity(capacity, sid, offset)` allows (any length up to the returned
/// maximum) is laid out by `encoding_strategy(capacity)` such that
/// padding + header (with the chosen length bit) + data <= capacity, the frame passes
/// `Package::dump`'s size test, and a frame WITHOUT length field ends exactly at the end of the room
/// (otherwise the receiver would take trailing bytes for stream data).
fn rt_stream_strategy_fits() {
    let capacity: usize = kani::any();
    kani::assume(capacity <= 65535);
    let sid = any_sid();
    let offset: u64 = kani::any();
    kani::assume(offset <= VARINT_MAX);
    let least = 1 + sid.encoding_size() + if offset != 0 { VarInt::from_u64(offset).unwrap().encoding_size() } else { 0 };
    match StreamFrame::estimate_max_capacity(capacity, sid, offset) {
        None => {
            assert!(capacity <= least, "None only when not even one data byte fits");
            kani::cover!(capacity == least);
        }
        Some(max) => {
            assert!(max == capacity - least && max >= 1);
            let length: usize = kani::any();
            kani::assume(length <= max);
            kani::assume(offset + length as u64 <= VARINT_MAX);
            let mut frame = StreamFrame::new(sid, offset, length);
            frame.set_eos_flag(kani::any());
            assert!(frame.encoding_size() == least);
            let strategy = frame.encoding_strategy(capacity);
            frame.set_len_bit(strategy.len_bit());
            let header = frame.encoding_size();
            let pad = strategy.pre_padding();
            assert!(header <= frame.max_encoding_size());
            assert!(pad + header + length <= capacity, "admitted by size always fits");
            // Package::dump admission test after the padding was written
            assert!(capacity - pad >= frame.encoding_size());
            let len_size = VarInt::try_from(length).unwrap().encoding_size();
            match strategy.len_bit() {
                Len::Omit => {
                    assert!(header == least);
                    assert!(pad + header + length == capacity, "length-less frame ends at the end of the room");
                    assert!(pad < len_size);
                }
                Len::Explicit => {
                    assert!(header == least + len_size);
                    let slack = capacity - pad - header - length;
                    assert!(slack == 0 || (pad == 0 && slack >= STREAM_FRAME_MAX_ENCODING_SIZE));
                }
            }
            kani::cover!(strategy.len_bit() == Len::Omit && pad == 1);
            kani::cover!(strategy.len_bit() == Len::Omit && pad == 0 && length == 16384);
            kani::cover!(strategy.len_bit() == Len::Explicit && pad > 0 && length == 63);
            kani::cover!(strategy.len_bit() == Len::Explicit && pad == 0 && capacity == 65535 && length == 100);
        }
    }
}

/// C05 STREAM on the wire: room of symbolic size <= 72 bytes (covers the 63/64 length-varint
/// boundary), any sid / offset / fin, any admitted length, identity-pattern data. The bytes written
/// (padding, header, data) parse back — with the real frame-type parser and the real
/// `stream_frame_with_flag` — to the same (sid, offset, length, fin, length-bit) and the same data.
fn rt_stream_data_roundtrip() {
    let capacity: usize = kani::any();
    kani::assume(capacity <= CAP);
    let sid = any_sid();
    let offset: u64 = kani::any();
    kani::assume(offset <= VARINT_MAX);
    let max = match StreamFrame::estimate_max_capacity(capacity, sid, offset) {
        Some(m) => m,
        None => {
            kani::assume(false);
            unreachable!()
        }
    };
    let length: usize = kani::any();
    kani::assume(length <= max);
    kani::assume(offset + length as u64 <= VARINT_MAX);
    let fin: bool = kani::any();
    let mut frame = StreamFrame::new(sid, offset, length);
    frame.set_eos_flag(fin);
    let strategy = frame.encoding_strategy(capacity);
    frame.set_len_bit(strategy.len_bit());
    let pad = strategy.pre_padding();
    let data: &[u8] = &SEQ[..length];
    let mut arr = [0xffu8; CAP];
    let left = {
        let mut buf: &mut [u8] = &mut arr[..capacity];
        bytes::BufMut::put_bytes(&mut buf, 0, pad);
        assert!(buf.len() >= frame.encoding_size(), "Package::dump admits the frame");
        buf.put_data_frame(&frame, &data);
        buf.len()
    };
    let written = capacity - left;
    assert!(written == pad + frame.encoding_size() + length);
    // ---- receiver ----
    let mut i = 0;
    while i < 8 {
        if i < pad {
            assert!(arr[i] == 0, "pre-padding is PADDING frames");
        }
        i += 1;
    }
    assert!(pad < 8 || frame.encoding_size() + length + pad == capacity);
    kani::assume(pad < 8); // the check loop above is bounded by 8; larger paddings (<= 24) are covered by c05_stream_strategy_fits
    let wire = &arr[pad..if strategy.len_bit() == Len::Omit { capacity } else { written }];
    let rest = skip_type(wire, frame.frame_type());
    let ty = frame.frame_type();
    let (o, l, f) = match ty {
        FrameType::Stream(o, l, f) => (o, l, f),
        _ => panic!("not a stream frame type"),
    };
    assert!((o == Offset::NonZero) == (offset != 0));
    assert!((f == Fin::Yes) == fin);
    assert!(l == strategy.len_bit());
    let (body, back) = match stream_frame_with_flag(o, l, f)(rest) {
        Ok(x) => x,
        Err(e) => {
            core::mem::forget(e);
            panic!("stream frame does not parse")
        }
    };
    assert!(back == frame);
    assert!(back.stream_id() == sid && back.offset() == offset && back.len() == length && back.is_fin() == fin);
    assert!(body.len() == length, "the data section is exactly the data written");
    let probe: usize = kani::any();
    if probe < length {
        assert!(body[probe] == SEQ[probe], "data byte survives at its position");
    }
    kani::cover!(strategy.len_bit() == Len::Omit && pad == 1 && length > 63);
    kani::cover!(strategy.len_bit() == Len::Explicit && length == 64);
    kani::cover!(strategy.len_bit() == Len::Explicit && length == 0 && fin);
    kani::cover!(offset > (1 << 40) && sid.encoding_size() == 8);
}

/// C05 CRYPTO, the size-admission arithmetic for every room up to 64 KiB: any length from 1 to
/// `estimate_max_capacity(capacity, offset)` gives a frame of at most `capacity` bytes, and the
/// maximum wastes at most 2 bytes of the room.
fn rt_crypto_capacity_fits() {
    let capacity: usize = kani::any();
    kani::assume(capacity <= 65535);
    let offset = any_varint();
    match CryptoFrame::estimate_max_capacity(capacity, offset.into_u64()) {
        None => {
            assert!(capacity < 1 + offset.encoding_size() + 2);
            kani::cover!(capacity == offset.encoding_size() + 2);
        }
        Some(max) => {
            assert!(max >= 1);
            let length: usize = kani::any();
            kani::assume(length >= 1 && length <= max);
            let f = CryptoFrame::new(offset, VarInt::try_from(length).unwrap());
            assert!(f.encoding_size() <= f.max_encoding_size());
            assert!(f.encoding_size() + length <= capacity, "admitted by size always fits");
            if length == max {
                assert!(capacity - (f.encoding_size() + length) <= 2, "the estimate is tight up to the varint step");
            }
            kani::cover!(length == max && max == 63);
            kani::cover!(length == max && max == 0x3fff);
            kani::cover!(length == max && capacity == 65535);
        }
    }
}

/// C05 CRYPTO on the wire (room <= 72 bytes): any offset, any admitted length.
fn crypto_roundtrip(offset: VarInt) {
    let capacity: usize = kani::any();
    kani::assume(capacity <= CAP);
    let max = match CryptoFrame::estimate_max_capacity(capacity, offset.into_u64()) {
        Some(m) => m,
        None => {
            kani::assume(false);
            unreachable!()
        }
    };
    let length: usize = kani::any();
    kani::assume(length >= 1 && length <= max);
    kani::assume(offset.into_u64() + length as u64 <= VARINT_MAX);
    let f = CryptoFrame::new(offset, VarInt::try_from(length).unwrap());
    let data: &[u8] = &SEQ[..length];
    let mut arr = [0xffu8; CAP];
    let size = f.encoding_size();
    assert!(size <= f.max_encoding_size());
    assert!(size + length <= capacity);
    {
        let mut buf: &mut [u8] = &mut arr[..size + length];
        buf.put_data_frame(&f, &data);
        assert!(buf.is_empty(), "bytes written == encoding_size() + data length");
    }
    let rest = skip_type(&arr[..size + length], f.frame_type());
    let (body, back) = match be_crypto_frame(rest) {
        Ok(x) => x,
        Err(e) => {
            core::mem::forget(e);
            panic!("valid CRYPTO frame rejected by its decoder")
        }
    };
    assert!(back == f && back.offset() == offset.into_u64() && back.len() == length as u64);
    assert!(back.range().start == offset.into_u64() && back.range().end == offset.into_u64() + length as u64);
    assert!(body.len() == length);
    let probe: usize = kani::any();
    if probe < length {
        assert!(body[probe] == SEQ[probe], "data byte survives at its position");
    }
    kani::cover!(length == 64, "2-byte length varint");
    kani::cover!(length == 1, "1-byte length varint");
    kani::cover!(offset.into_u64() >= (1 << 61), "offset >= 2^61 (used to be rejected by the decoder)");
}

fn rt_crypto_data_roundtrip() {
    // any offset (offsets >= 2^61 used to be rejected by the decoder: defect fixed in /repo; a cover
    // witness keeps the high half reachable)
    let offset = any_varint();
    crypto_roundtrip(offset);
}


/// C05 DATAGRAM (0x30 without / 0x31 with length) with 0..=64 bytes of data.
fn rt_datagram_roundtrip() {
    let length: usize = kani::any();
    kani::assume(length <= 66);
    let with_len: bool = kani::any();
    let f = DatagramFrame::new(with_len, VarInt::try_from(length).unwrap());
    let data: &[u8] = &SEQ[..length];
    let size = f.encoding_size();
    assert!(size <= f.max_encoding_size());
    assert!(size == 1 + if with_len { if length < 64 { 1 } else { 2 } } else { 0 });
    let mut arr = [0xffu8; CAP];
    {
        let mut buf: &mut [u8] = &mut arr[..size + length];
        buf.put_data_frame(&f, &data);
        assert!(buf.is_empty(), "bytes written == encoding_size() + data length");
    }
    assert!(arr[0] == 0x30 | with_len as u8);
    let rest = skip_type(&arr[..size + length], f.frame_type());
    let (body, back) = match datagram_frame_with_flag(with_len as u8)(rest) {
        Ok(x) => x,
        Err(e) => {
            core::mem::forget(e);
            panic!("datagram frame does not parse")
        }
    };
    assert!(back == f && back.encode_len() == with_len && back.len().into_u64() == length as u64);
    assert!(body.len() == length);
    let probe: usize = kani::any();
    if probe < length {
        assert!(body[probe] == SEQ[probe], "data byte survives at its position");
    }
    kani::cover!(with_len && length == 64);
    kani::cover!(!with_len && length == 0);
    kani::cover!(with_len && length == 63);
}

// ------------------------------------------------------------------------------------------------
// Verified model of `be_varint`.
//
// The real `be_varint` is a bit-level nom parser (two `bits::streaming::take` loops with symbolic
// shift amounts); one call costs ~50k symex steps and 20-40 s of solver time, a frame has 2-12 of
// them. `model_be_varint` is the same function written as plain byte arithmetic. It is proved
// equal to the real one — same value, same remaining slice, same `Incomplete(Needed)` — for every
// input by `c05_varint_model_equivalence` (and against the RFC 9000 §16 reference by
// `c03_varint_any_bytes`). The quick tier runs every frame harness with the model stubbed in
// (`#[kani::stub]`), the thorough tier runs the SAME harness bodies on the real nom parser
// (`*_real`).

pub(crate) fn model_be_varint(input: &[u8]) -> nom::IResult<&[u8], VarInt> {
    if input.is_empty() {
        return Err(nom::Err::Incomplete(nom::Needed::new(1)));
    }
    let b0 = input[0];
    let n = 1usize << (b0 >> 6);
    if input.len() < n {
        return Err(nom::Err::Incomplete(nom::Needed::new(n - input.len())));
    }
    // loop-free on purpose: harnesses with the model stubbed in can use small unwind bounds
    let mut v = (b0 & 0x3f) as u64;
    if n >= 2 {
        v = (v << 8) | input[1] as u64;
    }
    if n >= 4 {
        v = (v << 8) | input[2] as u64;
        v = (v << 8) | input[3] as u64;
    }
    if n == 8 {
        v = (v << 8) | input[4] as u64;
        v = (v << 8) | input[5] as u64;
        v = (v << 8) | input[6] as u64;
        v = (v << 8) | input[7] as u64;
    }
    // SAFETY: v < 2^62 (6 + 7*8 bits)
    Ok((&input[n..], unsafe { VarInt::from_u64_unchecked(v) }))
}

/// C05/C03: the model equals the real `be_varint` on every byte string of length 0..=16 (the
/// parser never looks past the first 8 bytes, so longer inputs behave like their 16-byte prefix).
#[kani::proof]
#[kani::stub(core::slice::index::slice_index_fail, stub_slice_index_fail)]
#[kani::unwind(10)]
fn c05_varint_model_equivalence() {
    let arr: [u8; 16] = kani::any();
    let len: usize = kani::any();
    kani::assume(len <= 16);
    let input = &arr[..len];
    match (be_varint(input), model_be_varint(input)) {
        (Ok((r1, v1)), Ok((r2, v2))) => {
            assert!(v1 == v2, "same value");
            assert!(r1.len() == r2.len() && r1.as_ptr() == r2.as_ptr(), "same remaining slice");
            kani::cover!(r1.len() == 8 && len == 16);
            kani::cover!(v1.into_u64() == VARINT_MAX);
        }
        (Err(nom::Err::Incomplete(n1)), Err(nom::Err::Incomplete(n2))) => {
            assert!(n1 == n2, "same number of missing bytes");
            kani::cover!(len == 7);
            kani::cover!(len == 0);
        }
        (a, b) => {
            core::mem::forget(a);
            core::mem::forget(b);
            panic!("model and real be_varint disagree")
        }
    }
}

/// `dual!(quick_name, real_name, unwind, body)`: registers `body` twice — with the verified
/// be_varint model stubbed in (quick tier) and on the real nom parser (thorough tier).
macro_rules! dual {
    ($(#[$doc:meta])* $quick:ident, $real:ident, $unwind:expr, $unwind_real:expr, $body:block) => {
        $(#[$doc])*
        #[kani::proof]
        #[kani::stub(core::slice::index::slice_index_fail, stub_slice_index_fail)]
#[kani::stub(core::slice::index::slice_index_fail, stub_slice_index_fail)]
        #[kani::unwind($unwind)]
        #[kani::stub(crate::varint::be_varint, model_be_varint)]
        #[kani::stub(alloc::fmt::format, stub_fmt)]
        fn $quick() $body

        $(#[$doc])*
        #[kani::proof]
        #[kani::stub(core::slice::index::slice_index_fail, stub_slice_index_fail)]
#[kani::stub(core::slice::index::slice_index_fail, stub_slice_index_fail)]
        #[kani::unwind($unwind_real)]
        #[kani::stub(alloc::fmt::format, stub_fmt)]
        fn $real() $body
    };
}

// ------------------------------------------------------------------------------------------------
// Registered harnesses. Cheap frame kinds are grouped (a symbolic selector picks the kind; every
// kind keeps its own assertions and cover witnesses).

/// C05 varint on the real parser: put_varint and encode_varint -> be_varint.
#[kani::proof]
#[kani::stub(core::slice::index::slice_index_fail, stub_slice_index_fail)]
#[kani::unwind(10)]
fn c05_varint_roundtrip() {
    if kani::any() {
        rt_varint_roundtrip()
    } else {
        rt_varint_encode_width_roundtrip()
    }
}

/// C05 StreamId and ConnectionId (length 0..=20) codecs on the real parsers.
#[kani::proof]
#[kani::stub(core::slice::index::slice_index_fail, stub_slice_index_fail)]
#[kani::unwind(22)]
fn c05_sid_cid_roundtrip() {
    if kani::any() {
        rt_streamid_roundtrip()
    } else {
        rt_cid_roundtrip()
    }
}

dual! {
    /// C05 PADDING, PING, HANDSHAKE_DONE, MAX_DATA, DATA_BLOCKED, RETIRE_CONNECTION_ID,
    /// MAX_STREAMS(bi/uni), STREAMS_BLOCKED(bi/uni), REMOVE_ADDRESS.
    c05_simple_frames_roundtrip, c05_simple_frames_roundtrip_real, 10, 10, {
        let which: u8 = kani::any();
        match which % 7 {
            0 => rt_empty_frames_roundtrip(),
            1 => rt_max_data_roundtrip(),
            2 => rt_data_blocked_roundtrip(),
            3 => rt_retire_connection_id_roundtrip(),
            4 => rt_max_streams_roundtrip(),
            5 => rt_streams_blocked_roundtrip(),
            _ => rt_remove_address_roundtrip(),
        }
    }
}

dual! {
    /// C05 RESET_STREAM, STOP_SENDING.
    c05_stream_ctl_a_roundtrip, c05_stream_ctl_a_roundtrip_real, 10, 10, {
        if kani::any() {
            rt_reset_stream_roundtrip()
        } else {
            rt_stop_sending_roundtrip()
        }
    }
}

dual! {
    /// C05 MAX_STREAM_DATA, STREAM_DATA_BLOCKED and the StreamCtlFrame / ReliableFrame sum-type encoders.
    c05_stream_ctl_b_roundtrip, c05_stream_ctl_b_roundtrip_real, 10, 10, {
        let which: u8 = kani::any();
        match which % 3 {
            0 => rt_max_stream_data_roundtrip(),
            1 => rt_stream_data_blocked_roundtrip(),
            _ => rt_sum_type_dispatch_roundtrip(),
        }
    }
}

/// C05 PATH_CHALLENGE, PATH_RESPONSE (8 arbitrary bytes; the response echoes the challenge).
#[kani::proof]
#[kani::stub(core::slice::index::slice_index_fail, stub_slice_index_fail)]
#[kani::unwind(12)]
fn c05_path_frames_roundtrip() {
    rt_path_frames_roundtrip()
}

/// C05 PUNCH_HELLO / PUNCH_DONE / ADD_ADDRESS / PUNCH_ME_NOW built with their public (u32)
/// constructors: fields appear on the wire in the documented order, sizes are exact,
/// `PunchDoneFrame::respond_to` mirrors the sequence numbers. (No decoder involved.)
#[kani::proof]
#[kani::stub(core::slice::index::slice_index_fail, stub_slice_index_fail)]
#[kani::unwind(10)]
fn c05_traversal_ctor_wire_order() {
    let which: u8 = kani::any();
    match which % 3 {
        0 => rt_punch_ctor_wire_order(),
        1 => rt_add_address_ctor_wire_order(),
        _ => rt_punch_me_now_ctor_wire_order(),
    }
}

dual! {
    /// C05 ACK (0x02) without additional ranges.
    c05_ack_roundtrip_n0, c05_ack_roundtrip_n0_real, 2, 10, { ack_roundtrip::<0>(false) }
}

dual! {
    /// C05 ACK (0x03) without additional ranges, with ECN counts.
    c05_ack_roundtrip_n0_ecn, c05_ack_roundtrip_n0_ecn_real, 2, 10, { ack_roundtrip::<0>(true) }
}

dual! {
    /// C05 ACK (0x02) with 1 additional range.
    c05_ack_roundtrip_n1, c05_ack_roundtrip_n1_real, 3, 10, { ack_roundtrip::<1>(false) }
}

dual! {
    /// C05 ACK (0x03) with 1 additional range and ECN counts.
    c05_ack_roundtrip_n1_ecn, c05_ack_roundtrip_n1_ecn_real, 3, 10, { ack_roundtrip::<1>(true) }
}

dual! {
    /// C05 ACK (0x02) with 2 additional ranges.
    c05_ack_roundtrip_n2, c05_ack_roundtrip_n2_real, 4, 10, { ack_roundtrip::<2>(false) }
}

dual! {
    /// C05 ACK (0x03) with 2 additional ranges and ECN counts.
    c05_ack_roundtrip_n2_ecn, c05_ack_roundtrip_n2_ecn_real, 4, 10, { ack_roundtrip::<2>(true) }
}

dual! {
    /// C05 NEW_TOKEN, token of symbolic length 0..=8.
    c05_new_token_roundtrip, c05_new_token_roundtrip_real, 10, 10, { rt_new_token_roundtrip() }
}

/// C05 CONNECTION_CLOSE, application layer (0x1d), ASCII reason of symbolic length 0..=8
/// (be_varint model; from_utf8_lossy replaced by its ASCII-exact model).
#[kani::proof]
#[kani::stub(core::slice::index::slice_index_fail, stub_slice_index_fail)]
#[kani::unwind(10)]
#[kani::stub(crate::varint::be_varint, model_be_varint)]
#[kani::stub(std::string::String::from_utf8_lossy, model_from_utf8_lossy_ascii)]
fn c05_close_app_roundtrip() {
    let which: u8 = kani::any();
    match which % 3 {
        0 => rt_close_app_roundtrip::<0>(),
        1 => rt_close_app_roundtrip::<1>(),
        _ => rt_close_app_roundtrip::<8>(),
    }
}

/// Same on the real nom be_varint (thorough).
#[kani::proof]
#[kani::stub(core::slice::index::slice_index_fail, stub_slice_index_fail)]
#[kani::unwind(10)]
#[kani::stub(std::string::String::from_utf8_lossy, model_from_utf8_lossy_ascii)]
fn c05_close_app_roundtrip_real() {
    let which: u8 = kani::any();
    match which % 3 {
        0 => rt_close_app_roundtrip::<0>(),
        1 => rt_close_app_roundtrip::<1>(),
        _ => rt_close_app_roundtrip::<8>(),
    }
}

/// C05 CONNECTION_CLOSE, transport layer (0x1c), ASCII reason of symbolic length 0..=8.
#[kani::proof]
#[kani::stub(core::slice::index::slice_index_fail, stub_slice_index_fail)]
#[kani::unwind(10)]
#[kani::stub(crate::varint::be_varint, model_be_varint)]
#[kani::stub(alloc::fmt::format, stub_fmt)]
#[kani::stub(std::string::String::from_utf8_lossy, model_from_utf8_lossy_ascii)]
fn c05_close_quic_roundtrip() {
    let which: u8 = kani::any();
    match which % 3 {
        0 => rt_close_quic_roundtrip::<0>(),
        1 => rt_close_quic_roundtrip::<1>(),
        _ => rt_close_quic_roundtrip::<8>(),
    }
}

/// Same on the real nom be_varint (thorough).
#[kani::proof]
#[kani::stub(core::slice::index::slice_index_fail, stub_slice_index_fail)]
#[kani::unwind(10)]
#[kani::stub(alloc::fmt::format, stub_fmt)]
#[kani::stub(std::string::String::from_utf8_lossy, model_from_utf8_lossy_ascii)]
fn c05_close_quic_roundtrip_real() {
    let which: u8 = kani::any();
    match which % 3 {
        0 => rt_close_quic_roundtrip::<0>(),
        1 => rt_close_quic_roundtrip::<1>(),
        _ => rt_close_quic_roundtrip::<8>(),
    }
}

/// C05 "admitted by size always fits" for STREAM and CRYPTO frames, pure size arithmetic, every room
/// up to 64 KiB (see rt_stream_strategy_fits / rt_crypto_capacity_fits).
#[kani::proof]
#[kani::stub(core::slice::index::slice_index_fail, stub_slice_index_fail)]
#[kani::unwind(10)]
fn c05_data_frame_capacity_fits() {
    if kani::any() {
        rt_stream_strategy_fits()
    } else {
        rt_crypto_capacity_fits()
    }
}

dual! {
    /// C05 STREAM on the wire (room <= 72 bytes).
    c05_stream_data_roundtrip, c05_stream_data_roundtrip_real, 10, 10, { rt_stream_data_roundtrip() }
}

dual! {
    /// C05 CRYPTO and DATAGRAM on the wire (<= 72 bytes).
    c05_crypto_datagram_roundtrip, c05_crypto_datagram_roundtrip_real, 10, 10, {
        if kani::any() {
            rt_crypto_data_roundtrip()
        } else {
            rt_datagram_roundtrip()
        }
    }
}

