// Kani harnesses compiled inside qrecovery::journal::rcvd (overlay, cfg(kani) only).
// std HashSet (rcvd.rs) and the VecDeque inside qbase's IndexDeque are replaced by verif_model.
//
// C07, receiver half: "The truncated number written on the wire is always reconstructed to the full
// number by a receiver that has already received every packet the sender knows to be acknowledged."
//
// RcvdJournal::decode_pn has to hand PacketNumber::decode the number that follows the LARGEST PACKET
// NUMBER EVER REGISTERED in the space. That number is `offset + len` of the window (IndexDeque::largest),
// which stays correct when the window has been emptied from the front (rotate_queue / pop_front):
// `offset` keeps the high-water mark. The oracle is written against that definition, not against the
// code: the expected number is computed by the harness from (offset, N) of the pre-state it built.
//
//   c07_j_rcvd_decode_spec_n*   decode_pn(wire pn) == RFC 9000 A.3 decode relative to offset+N, mapped
//                               through the too-old / duplicate tests; exact error kinds; journal unchanged
//   c07_j_rcvd_sender_contract_n*  every number a conforming sender can put on the wire
//                               (PacketNumber::encode(pn, largest_acked) through the real wire codec,
//                               largest_acked <= largest registered < pn, pn - largest_acked < 2^31)
//                               is reconstructed: decode_pn == Ok(pn)
//   c07_j_rcvd_after_drain_n*   the same after the REAL rotate_queue has emptied (part of) the window
// "A registered number is never accepted twice" is checked in its inductive form: decode_spec refuses
// (Duplicate) every number whose record is not Empty and (TooOld) every number below the window, for
// every window content; that on_rcvd_pn makes exactly the record of pn non-Empty is C10's
// c10_rcvd_accept_once_* (harness/qrecovery/journal_rcvd.rs). A step harness decode_pn -> on_rcvd_pn ->
// decode_pn written here did not finish within 25 min on the container model with CAP 8 and was removed.
use super::*;
use qbase::packet::{WritePacketNumber, take_pn_len};

// ---- clock (layout of std's unix Timespec {tv_sec: i64, tv_nsec: u32}; c10_clock_model_sane of
// journal_rcvd.rs checks that the arithmetic agrees) ------------------------------------------------
#[repr(C)]
struct RawTs {
    s: i64,
    n: u32,
}

fn mk_instant(secs: u64) -> Instant {
    let std_i: std::time::Instant = unsafe { core::mem::transmute(RawTs { s: secs as i64, n: 0 }) };
    Instant::from_std(std_i)
}

const T_MAX: u64 = 1u64 << 40;

static mut NOW_SECS: u64 = 0;

/// Stub for tokio::time::Instant::now: the harness-controlled current time.
fn stub_now() -> Instant {
    mk_instant(unsafe { NOW_SECS })
}

fn any_secs() -> u64 {
    let s: u64 = kani::any();
    kani::assume(s < T_MAX);
    s
}

// ---- pre-states --------------------------------------------------------------------------------
const EMPTY: u8 = 0;
const RCVD: u8 = 1;
const CONFIRMED: u8 = 2;
const SENT: u8 = 3;

const M62: u64 = 1u64 << 62;
/// Window positions are symbolic in [0, OFF_MAX]: full 62-bit width minus the room the 32-bit decode
/// window needs above `expected` (decode_pn never produces TooLarge; what happens when a decoded
/// number passes 2^62-1 is outside C07 — see the report).
const OFF_MAX: u64 = M62 - (1u64 << 33);

struct Pre<const N: usize> {
    off: u64,
    kinds: [u8; N],
    /// AckConfirmed records: (ack_eliciting, expire seconds)
    eliciting: [bool; N],
    expire: [u64; N],
}

impl<const N: usize> Pre<N> {
    /// offset + N: the number following the largest packet number ever registered
    fn next(&self) -> u64 {
        self.off + N as u64
    }
    fn kind_at(&self, x: u64) -> u8 {
        if x >= self.off && x - self.off < N as u64 { self.kinds[(x - self.off) as usize] } else { EMPTY }
    }
}

fn any_state(kinds: u8, tag: u64) -> (State, u8, bool, u64) {
    let k: u8 = kani::any();
    kani::assume(k < kinds);
    let el: bool = kani::any();
    let exp = any_secs();
    let st = match k {
        EMPTY => State::Empty,
        RCVD => State::PacketReceived(mk_instant(5), if el { Some(mk_instant(6)) } else { None }, mk_instant(exp)),
        CONFIRMED => State::AckConfirmed(el, mk_instant(5), mk_instant(exp)),
        _ => State::AckSent(el, mk_instant(5), mk_instant(exp), [tag].into()),
    };
    (st, k, el, exp)
}

/// A journal whose window holds exactly N records of symbolic kinds (`kinds` = 3: no AckSent record,
/// 4: all) at a symbolic offset. N == 0 with offset > 0 is the fully drained window; N == 0 with
/// offset == 0 the fresh journal. Representation invariant of real histories: the newest record is
/// never Empty (records are appended by on_rcvd_pn, which stores PacketReceived last, and removed
/// from the front only).
fn any_journal<const N: usize>(kinds: u8) -> (RcvdJournal, Pre<N>) {
    let mut j = RcvdJournal::default();
    let mut pre = Pre { off: 0, kinds: [EMPTY; N], eliciting: [false; N], expire: [0; N] };
    let mut i = 0;
    while i < N {
        let (st, k, el, exp) = any_state(kinds, 7);
        pre.kinds[i] = k;
        pre.eliciting[i] = el;
        pre.expire[i] = exp;
        // pushed at the concrete offset 0: IndexDeque::push_back's limit test is decided during
        // symbolic execution and the shape of the model deque stays concrete
        j.queue.push_back(st).unwrap();
        i += 1;
    }
    let off: u64 = kani::any();
    kani::assume(off <= OFF_MAX);
    j.queue.reset_offset(off);
    pre.off = off;
    if N > 0 {
        kani::assume(pre.kinds[N - 1] != EMPTY);
    }
    (j, pre)
}

fn kind_of(s: &State) -> u8 {
    match s {
        State::Empty => EMPTY,
        State::PacketReceived(..) => RCVD,
        State::AckConfirmed(..) => CONFIRMED,
        State::AckSent(..) => SENT,
    }
}

/// the window is exactly the pre-state's records from `dropped` on
fn check_unchanged<const N: usize>(j: &RcvdJournal, pre: &Pre<N>, dropped: usize) {
    assert!(j.queue.offset() == pre.off + dropped as u64, "window offset");
    assert!(j.queue.len() == N - dropped, "window length");
    let mut k = 0usize;
    for (pn, s) in j.queue.enumerate() {
        assert!(pn == pre.off + (dropped + k) as u64);
        assert!(dropped + k < N);
        assert!(kind_of(s) == pre.kinds[dropped + k], "record kind unchanged");
        k += 1;
    }
    assert!(k == N - dropped);
}

// ---- wire -------------------------------------------------------------------------------------
/// Write `pn` with the real `put_packet_number`, read it back with the real `take_pn_len`; also
/// returns the truncated value read big-endian by the harness and its width in bits.
fn through_wire(pn: PacketNumber) -> (PacketNumber, u64, u32) {
    let mut arr = [0u8; 4];
    let size = pn.size();
    {
        let mut buf = &mut arr[..];
        buf.put_packet_number(pn);
        assert!(4 - buf.len() == size);
    }
    let back = match take_pn_len(size as u8)(&arr[..size]) {
        Ok((_, back)) => back,
        Err(e) => {
            core::mem::forget(e);
            panic!("take_pn_len fails on its own encoding")
        }
    };
    assert!(back.size() == size);
    let mut trunc = 0u64;
    let mut i = 0;
    while i < 4 {
        if i < size {
            trunc = (trunc << 8) | arr[i] as u64;
        }
        i += 1;
    }
    (back, trunc, 8 * size as u32)
}

fn any_pn_value() -> PacketNumber {
    let which: u8 = kani::any();
    let raw: u32 = kani::any();
    match which {
        0 => PacketNumber::U8(raw as u8),
        1 => PacketNumber::U16(raw as u16),
        2 => PacketNumber::U24(raw), // un-masked in memory, as PacketNumber::encode leaves it
        _ => PacketNumber::U32(raw),
    }
}

/// RFC 9000 Appendix A.3 DecodePacketNumber, with `next` = largest_pn + 1 (0 if nothing was received).
fn rfc_decode(next: u64, truncated: u64, nbits: u32) -> u64 {
    let win = 1u64 << nbits;
    let hwin = win / 2;
    let mask = win - 1;
    let candidate = (next & !mask) | truncated;
    if next >= hwin && candidate <= next - hwin && candidate < M62 - win {
        candidate + win
    } else if candidate > next + hwin && candidate >= win {
        candidate - win
    } else {
        candidate
    }
}

// ---- c07_j_rcvd_decode_spec ----------------------------------------------------------------------
fn decode_spec_step<const N: usize>(kinds: u8) {
    let (mut j, pre) = any_journal::<N>(kinds);
    let off = pre.off;
    let (wire, trunc, nbits) = through_wire(any_pn_value());
    // the number following the largest one ever registered: the harness's own bookkeeping
    let next = pre.next();
    let want = rfc_decode(next, trunc, nbits);
    let r = j.decode_pn(wire);
    check_unchanged(&j, &pre, 0);
    match r {
        Ok(pn) => {
            assert!(pn == want, "Ok value == RFC 9000 A.3 relative to (largest registered + 1)");
            assert!(pn >= off, "never Ok below the window");
            assert!(pre.kind_at(pn) == EMPTY, "never Ok for a number already registered");
        }
        Err(InvalidPacketNumber::TooOld) => assert!(want < off, "TooOld only below the window"),
        Err(InvalidPacketNumber::Duplicate) => {
            assert!(want >= off && pre.kind_at(want) != EMPTY, "Duplicate only for a registered number")
        }
        Err(InvalidPacketNumber::TooLarge) => panic!("decode_pn never reports TooLarge"),
    }
    kani::cover!(matches!(r, Ok(p) if p > next + 70000), "jumps far ahead");
    kani::cover!(N < 2 || matches!(r, Ok(p) if p < next), "fills a hole");
    kani::cover!(N == 0 || matches!(r, Err(InvalidPacketNumber::Duplicate)), "duplicate");
    kani::cover!(matches!(r, Err(InvalidPacketNumber::TooOld)), "too old");
    kani::cover!(N > 0 || (off > (1u64 << 40) && nbits == 16 && matches!(r, Ok(p) if p == off)), "drained window: next number accepted, 2-byte encoding");
    core::mem::forget(j);
}

#[kani::proof]
#[kani::unwind(10)]
fn c07_j_rcvd_decode_spec_n0() {
    decode_spec_step::<0>(4);
}

#[kani::proof]
#[kani::unwind(10)]
fn c07_j_rcvd_decode_spec_n2() {
    decode_spec_step::<2>(3);
}

#[kani::proof]
#[kani::unwind(10)]
fn c07_j_rcvd_decode_spec_n3() {
    decode_spec_step::<3>(4);
}

// ---- c07_j_rcvd_sender_contract ------------------------------------------------------------------
/// What the peer's sender may do (sent.rs NewPacketGuard::pn): encode(pn, largest_acked) with
/// largest_acked = the largest number it has seen acknowledged (0 before the first ACK). The
/// receiver "has received every packet the sender knows to be acknowledged": largest_acked <= the
/// largest number registered here (= next - 1), or nothing is acknowledged yet (largest_acked == 0).
fn sender_contract_checks<const N: usize>(j: &mut RcvdJournal, pre: &Pre<N>) {
    let next = pre.next();
    let pn: u64 = kani::any();
    let la: u64 = kani::any();
    kani::assume(pn < M62 && pn >= next); // a packet this receiver has not seen: beyond the largest registered
    kani::assume(la <= pn && pn - la < (1u64 << 31)); // PacketNumber::encode's documented domain
    kani::assume(la == 0 || la < next); // acknowledged => registered here
    let enc = PacketNumber::encode(pn, la);
    let (wire, _trunc, nbits) = through_wire(enc);
    let r = j.decode_pn(wire);
    assert!(r == Ok(pn), "a number a conforming sender puts on the wire is reconstructed");
    kani::cover!(nbits == 16 && pn == next + 32766, "2-byte encoding, far end of its range");
    kani::cover!(nbits == 32 && pn > next + (1 << 30) && pn > (1u64 << 61), "4-byte encoding, jump > 2^30, large packet number");

    // the clause as the RFC states it: ANY number in (largest, largest + 2^15] truncated to 16 bits
    let pn2: u64 = kani::any();
    kani::assume(pn2 >= next && pn2 - next < (1u64 << 15));
    let (wire2, _, _) = through_wire(PacketNumber::U16(pn2 as u16));
    let r2 = j.decode_pn(wire2);
    assert!(r2 == Ok(pn2), "2-byte truncation of a number in (largest, largest + 2^15] is reconstructed");
    kani::cover!(pn2 == next + 32767);
}

fn sender_contract_step<const N: usize>(kinds: u8) {
    let (mut j, pre) = any_journal::<N>(kinds);
    sender_contract_checks(&mut j, &pre);
    check_unchanged(&j, &pre, 0);
    kani::cover!(N > 0 || pre.off > 5, "drained window (offset > 0, no record)");
    core::mem::forget(j);
}

#[kani::proof]
#[kani::unwind(10)]
fn c07_j_rcvd_sender_contract_n0() {
    sender_contract_step::<0>(4);
}

#[kani::proof]
#[kani::unwind(10)]
fn c07_j_rcvd_sender_contract_n3() {
    sender_contract_step::<3>(3);
}

// ---- c07_j_rcvd_after_drain ----------------------------------------------------------------------
/// number of leading records rotate_queue may forget at time `now` (State::could_expire)
fn droppable_prefix<const N: usize>(pre: &Pre<N>, now: u64) -> usize {
    let mut n = 0;
    let mut i = 0;
    let mut open = true;
    while i < N {
        let can = match pre.kinds[i] {
            EMPTY => true,
            CONFIRMED => !pre.eliciting[i] || pre.expire[i] < now,
            _ => false,
        };
        if open && can {
            n += 1;
        } else {
            open = false;
        }
        i += 1;
    }
    n
}

/// The REAL rotate_queue empties (part of) the window; afterwards the numbers a sender may use are
/// still reconstructed and the forgotten ones are refused (never accepted a second time).
fn after_drain_step<const N: usize>() {
    let (mut j, pre) = any_journal::<N>(3);
    let now = any_secs();
    unsafe { NOW_SECS = now };
    j.rotate_queue();
    let dropped = droppable_prefix(&pre, now);
    check_unchanged(&j, &pre, dropped);
    assert!(j.queue.largest() == pre.next(), "the high-water mark survives the rotation");
    sender_contract_checks(&mut j, &pre);
    // a forgotten number is refused whatever encoding it arrives in
    let (wire, trunc, nbits) = through_wire(any_pn_value());
    let want = rfc_decode(pre.next(), trunc, nbits);
    let r = j.decode_pn(wire);
    if want < pre.off + dropped as u64 {
        assert!(r == Err(InvalidPacketNumber::TooOld), "numbers the window has slid past are refused");
    }
    kani::cover!(dropped == N && want + 1 == pre.next(), "window completely drained by rotate_queue, the last forgotten number arrives again");
    kani::cover!(dropped == 0, "nothing to forget");
    core::mem::forget(j);
}

#[kani::proof]
#[kani::unwind(10)]
#[kani::stub(tokio::time::Instant::now, stub_now)]
fn c07_j_rcvd_after_drain_n1() {
    after_drain_step::<1>();
}

#[kani::proof]
#[kani::unwind(10)]
#[kani::stub(tokio::time::Instant::now, stub_now)]
fn c07_j_rcvd_after_drain_n3() {
    after_drain_step::<3>();
}
