// Kani harnesses compiled inside qrecovery::crypto (overlay, cfg(kani) only).  Property C04.
//
// CRYPTO frames are delivered to CryptoStreamIncoming::recv_frame -> Recver::recv -> RecvBuf::recv.
// RFC 9000 §7.5: an endpoint buffers out-of-order CRYPTO data up to a limit of its choosing (at
// least 4096 bytes) and otherwise "MUST close the connection with a CRYPTO_BUFFER_EXCEEDED error
// code". qrecovery/src/crypto.rs has NO such limit (`RecvBuf::default()`, ErrorKind::
// CryptoBufferExceeded is never constructed anywhere in the workspace): every offset the parser
// accepts is buffered, in the Initial space already (before the peer is authenticated).
//
// RecvBuf.segments: std VecDeque -> verif_model::VecDeque; Bytes -> model/bytes-kani.
use bytes::Bytes;
use qbase::{
    error::ErrorKind,
    frame::{CryptoFrame, io::ReceiveFrame},
    varint::{VARINT_MAX, VarInt},
};

use super::*;

static SEQ: [u8; 8] = [0, 1, 2, 3, 4, 5, 6, 7];

fn stub_lock<T: ?Sized>(m: &std::sync::Mutex<T>) -> std::sync::LockResult<std::sync::MutexGuard<'_, T>> {
    match m.try_lock() {
        Ok(g) => Ok(g),
        Err(_) => panic!("mutex already held in a single-threaded harness: self-deadlock"),
    }
}

/// One CRYPTO frame carrying 1..=4 bytes at ANY offset be_crypto_frame accepts
/// (offset + length <= 2^62-1, c04_frames_crypto_offset_plus_len) into a fresh crypto stream.
/// `limit`: Some(L) demands CRYPTO_BUFFER_EXCEEDED for data ending more than L bytes beyond what
/// the TLS layer has consumed (nothing, here).
fn crypto_recv(limit: Option<u64>) {
    let cs = CryptoStream::new(ArcSendWakers::default());
    let offset: u64 = kani::any();
    let len: usize = kani::any();
    kani::assume(len >= 1 && len <= 4);
    kani::assume(offset <= VARINT_MAX - len as u64);
    let data = Bytes::from_static(&SEQ).slice(0..len);
    let frame = CryptoFrame::new(VarInt::from_u64(offset).unwrap(), VarInt::from_u32(len as u32));
    let r = cs.incoming().recv_frame((frame, data));
    kani::cover!(offset > (1u64 << 60), "far out-of-order data");
    kani::cover!(offset == 0, "in-order data");
    match limit {
        Some(l) => {
            if offset + len as u64 > l {
                match &r {
                    Err(e) => assert!(e.kind() == ErrorKind::CryptoBufferExceeded),
                    Ok(()) => panic!("C04: CRYPTO data beyond the buffer limit must be refused with CRYPTO_BUFFER_EXCEEDED"),
                }
            } else {
                assert!(r.is_ok());
            }
        }
        None => assert!(r.is_ok(), "as built: every offset is buffered, no panic (Recver::recv's assert is unreachable)"),
    }
    core::mem::forget(r);
    core::mem::forget(cs);
}

/// pending (finding: unbounded CRYPTO buffering). L = 2^32 bytes -- far beyond anything a TLS
/// handshake needs; any finite L fails the same way.
#[kani::proof]
#[kani::unwind(6)]
#[kani::stub(std::sync::Mutex::lock, stub_lock)]
fn c04_p_crypto_buffer_limit_enforced() {
    crypto_recv(Some(1u64 << 32));
}

/// passing twin: no panic for any acceptable offset; the frame is taken (Ok).
#[kani::proof]
#[kani::unwind(6)]
#[kani::stub(std::sync::Mutex::lock, stub_lock)]
fn c04_crypto_recv_any_offset_no_panic() {
    crypto_recv(None);
}
