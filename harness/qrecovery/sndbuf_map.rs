// Kani harnesses compiled inside qrecovery::send::sndbuf (overlay, cfg(kani) only).
// Property C09, part 1: one inductive step of every `BufMap` operation from an arbitrary valid
// pre-state (representation invariant J below), with a pointwise colour oracle: a symbolic probe
// offset x is chosen before the step, its colour is read before and after, and the step's
// specification says what the colour of x has to be afterwards. Offsets are full width (62 bit).
//
// Invariant J (what every history of SendBuf calls maintains, see check_inv):
//   * boundaries strictly increasing, every boundary < size <= 2^62-1;
//   * Pending appears only as the colour of the LAST boundary (never-sent bytes are a suffix);
//   * two neighbouring boundaries have different colours, except Lost|Lost (resend_flighting turns
//     Flighting into Lost without merging);
//   * bytes below the first boundary are implicitly Recved (acked prefix, `shift` pops it).
use core::cell::Cell;

use super::*;

pub(super) const LIM: u64 = (1 << 62) - 1; // VARINT_MAX

pub(super) fn adjacent_ok(a: Color, b: Color) -> bool {
    a != Color::Pending && (a != b || a == Color::Lost)
}

/// Arbitrary BufMap with exactly N boundaries satisfying J; also returns the boundaries.
pub(super) fn any_map<const N: usize>() -> (BufMap, [State; N]) {
    any_map_relaxed::<N>(0)
}

/// Same, but the colour rules of J (neighbours differ, Pending only last) are only imposed on
/// the pairs (i-1, i) with i >= relax_below (offsets are strictly increasing everywhere).
pub(super) fn any_map_relaxed<const N: usize>(relax_below: usize) -> (BufMap, [State; N]) {
    let size: u64 = kani::any();
    kani::assume(size <= LIM);
    let mut m = BufMap::default();
    let mut pre = [State(0); N];
    let mut i = 0;
    while i < N {
        let s = State(kani::any());
        kani::assume(s.offset() < size);
        if i > 0 {
            let p = pre[i - 1];
            kani::assume(p.offset() < s.offset());
            kani::assume(p.color() != Color::Pending);
            if i >= relax_below {
                kani::assume(adjacent_ok(p.color(), s.color()));
            }
        }
        pre[i] = s;
        m.0.push_back(s);
        i += 1;
    }
    m.1 = size;
    (m, pre)
}

/// Representation invariant J.
pub(super) fn check_inv(m: &BufMap) {
    check_inv_from(m, 0)
}

/// J with the neighbour-colour rule only checked for the pairs (i-1, i) with i >= relax_below.
pub(super) fn check_inv_from(m: &BufMap, relax_below: usize) {
    assert!(m.1 <= LIM, "J: size <= 2^62-1");
    let n = m.0.len();
    let mut i = 0;
    while i < n {
        let s = m.0[i];
        assert!(s.offset() < m.1, "J: boundary below size");
        if i > 0 {
            let p = m.0[i - 1];
            assert!(p.offset() < s.offset(), "J: boundaries strictly increasing");
            assert!(p.color() != Color::Pending, "J: Pending only as the last boundary");
            if i >= relax_below {
                assert!(p.color() != s.color() || p.color() == Color::Lost, "J: neighbours differ in colour (except Lost|Lost)");
            }
        }
        i += 1;
    }
}

/// Colour of byte x (x < size): colour of the last boundary <= x, Recved below the first one.
pub(super) fn color_at(m: &BufMap, x: u64) -> Color {
    let mut c = Color::Recved;
    let n = m.0.len();
    let mut i = 0;
    while i < n {
        let s = m.0[i];
        if s.offset() <= x {
            c = s.color();
        }
        i += 1;
    }
    c
}

pub(super) fn any_probe(m: &BufMap) -> u64 {
    let x: u64 = kani::any();
    kani::assume(x < m.size());
    x
}

// ------------------------------------------------------------------------------------------------
// ack_rcvd

fn ack_step<const N: usize>() {
    let (mut m, _pre) = any_map::<N>();
    let size = m.size();
    let start: u64 = kani::any();
    let end: u64 = kani::any();
    // documented precondition: a non-empty range of bytes that were picked before
    kani::assume(start < end && end <= m.sent());
    let x = any_probe(&m);
    let before = color_at(&m, x);

    m.ack_rcvd(&(start..end));

    check_inv(&m);
    assert!(m.size() == size, "ack does not change the size");
    let after = color_at(&m, x);
    if x >= start && x < end {
        assert!(after == Color::Recved, "acked byte is Recved");
    } else {
        assert!(after == before, "byte outside the acked range keeps its colour");
    }
    assert!(m.0.len() <= N + 2, "at most two boundaries are added");
    // (witnesses that cannot exist at a small shape are made trivially true there)
    kani::cover!(N == 0 || (x >= start && x < end && before == Color::Lost), "ack after loss");
    kani::cover!(x >= start && x < end && before == Color::Recved, "repeated ack");
    kani::cover!(N == 0 || m.0.len() == N + 2, "split in the middle of a segment");
    kani::cover!(N < 2 || m.0.len() < N, "merge removed boundaries");
}

#[kani::proof]
#[kani::unwind(8)]
fn c09_ack_step_n0() {
    ack_step::<0>();
}

#[kani::proof]
#[kani::unwind(8)]
fn c09_ack_step_n1() {
    ack_step::<1>();
}

#[kani::proof]
#[kani::unwind(8)]
fn c09_ack_step_n2() {
    ack_step::<2>();
}

#[kani::proof]
#[kani::unwind(8)]
fn c09_ack_step_n3() {
    ack_step::<3>();
}

#[kani::proof]
#[kani::unwind(8)]
fn c09_ack_step_n4() {
    ack_step::<4>();
}

// ------------------------------------------------------------------------------------------------
// pick

fn pick_step<const N: usize>() {
    let (mut m, pre) = any_map::<N>();
    let size = m.size();
    // SendBuf passes max_data, and state.size == min(written, max_data) (checked in sndbuf_buf.rs)
    let window: u64 = kani::any();
    kani::assume(window >= size);
    let flow_limit: usize = kani::any();
    // the predicate: an arbitrary function on two points; allowance >= 1 (callers return None,
    // never Some(0)) and small enough that `start + allowance` cannot overflow
    let k: u64 = kani::any();
    let ra: Option<usize> = kani::any();
    let rb: Option<usize> = kani::any();
    if let Some(a) = ra {
        kani::assume(a >= 1 && a as u64 <= LIM);
    }
    if let Some(b) = rb {
        kani::assume(b >= 1 && b as u64 <= LIM);
    }
    let x = any_probe(&m);
    let before = color_at(&m, x);
    let asked: Cell<Option<u64>> = Cell::new(None);
    let calls: Cell<u8> = Cell::new(0);

    let res = m.pick(
        |o| {
            asked.set(Some(o));
            calls.set(calls.get() + 1);
            if o == k { ra } else { rb }
        },
        flow_limit,
        window,
    );

    check_inv(&m);
    assert!(m.size() == size, "pick does not change the size");
    let after = color_at(&m, x);

    // oracle: the lowest Lost segment, or the Pending suffix if fresh data may be sent
    let mut cand: Option<usize> = None;
    let mut blocked_fresh = false;
    let mut i = 0;
    while i < N {
        if cand.is_none() {
            match pre[i].color() {
                Color::Lost => cand = Some(i),
                Color::Pending if flow_limit != 0 => cand = Some(i),
                Color::Pending => blocked_fresh = true,
                _ => {}
            }
        }
        i += 1;
    }
    let base = Signals::WRITTEN | Signals::TRANSPORT;
    match cand {
        None => {
            let expect = if blocked_fresh {
                Signals::TRANSPORT | Signals::FLOW_CONTROL
            } else {
                base
            };
            assert!(res == Err(expect), "nothing to offer: the signal set names the blocking cause");
            assert!(calls.get() == 0);
            assert!(after == before && m.0.len() == N, "on Err nothing changed");
        }
        Some(i) => {
            let start = pre[i].offset();
            let fresh = pre[i].color() == Color::Pending;
            assert!(calls.get() == 1 && asked.get() == Some(start), "predicate asked once, for the start of the offered range");
            match if start == k { ra } else { rb } {
                None => {
                    assert!(res == Err(base | Signals::CONGESTION), "predicate refused: congestion signalled");
                    assert!(after == before && m.0.len() == N, "on Err nothing changed");
                }
                Some(a) => {
                    let allowance = if fresh && flow_limit < a { flow_limit } else { a };
                    let seg_end = if i + 1 < N { pre[i + 1].offset() } else { size };
                    let end = if start + (allowance as u64) < seg_end { start + allowance as u64 } else { seg_end };
                    assert!(res == Ok((start..end, fresh)), "lowest offerable range, limited by allowance (and flow limit if fresh); fresh iff never sent");
                    assert!(end <= window && end <= size);
                    if x >= start && x < end {
                        assert!(before == if fresh { Color::Pending } else { Color::Lost });
                        assert!(after == Color::Flighting, "offered bytes are in flight");
                    } else {
                        assert!(after == before, "bytes outside the offered range keep their colour");
                    }
                    assert!(m.0.len() <= N + 1);
                    kani::cover!(!fresh && end < seg_end, "part of a lost segment offered again");
                    kani::cover!(fresh && end == seg_end, "all fresh data offered");
                    kani::cover!(N < 2 || m.0.len() < N, "merged with neighbouring in-flight segments");
                }
            }
        }
    }
    kani::cover!(res == Err(Signals::TRANSPORT | Signals::FLOW_CONTROL), "fresh data blocked by flow control");
}

#[kani::proof]
#[kani::unwind(8)]
fn c09_pick_step_n0() {
    // (the flow-control witness needs a Pending segment)
    let (mut m, _pre) = any_map::<0>();
    let window: u64 = kani::any();
    kani::assume(window >= m.size());
    let r = m.pick(|_| -> Option<usize> { unreachable!() }, kani::any(), window);
    assert!(r == Err(Signals::WRITTEN | Signals::TRANSPORT));
    assert!(m.0.len() == 0);
    kani::cover!(m.size() > 0, "everything acked");
}

#[kani::proof]
#[kani::unwind(8)]
fn c09_pick_step_n1() {
    pick_step::<1>();
}

#[kani::proof]
#[kani::unwind(8)]
fn c09_pick_step_n2() {
    pick_step::<2>();
}

#[kani::proof]
#[kani::unwind(8)]
fn c09_pick_step_n3() {
    pick_step::<3>();
}

#[kani::proof]
#[kani::unwind(8)]
fn c09_pick_step_n4() {
    pick_step::<4>();
}

// ------------------------------------------------------------------------------------------------
// State codec (full width)

fn any_color() -> Color {
    let c: u8 = kani::any();
    kani::assume(c < 4);
    match c {
        0 => Color::Pending,
        1 => Color::Flighting,
        2 => Color::Lost,
        _ => Color::Recved,
    }
}

#[kani::proof]
fn c09_state_codec() {
    let off: u64 = kani::any();
    kani::assume(off <= LIM);
    let c = any_color();
    let s = State::encode(off, c);
    assert!(s.decode() == (off, c), "encode/decode round trip for every offset < 2^62 and colour");
    let c2 = any_color();
    let mut t = s;
    t.set_color(c2);
    assert!(t.offset() == off && t.color() == c2, "set_color keeps the offset");
    // every u64 is a State: colour and offset are total
    let raw = State(kani::any());
    assert!(raw.offset() <= LIM);
    assert!(State::encode(raw.offset(), raw.color()) == raw);
    kani::cover!(c == Color::Recved && off == LIM, "largest offset, Recved");
}

// ------------------------------------------------------------------------------------------------
// extend_to / sent / shift / resend_flighting

fn extend_step<const N: usize>() {
    let (mut m, _pre) = any_map::<N>();
    let size = m.size();
    let pos: u64 = kani::any();
    kani::assume(pos >= size && pos <= LIM); // documented (debug_assert) precondition
    let x: u64 = kani::any();
    kani::assume(x < pos);
    let before = if x < size { color_at(&m, x) } else { Color::Pending };
    let sent_before = m.sent();

    let ret = m.extend_to(pos);

    check_inv(&m);
    assert!(ret == pos && m.size() == pos, "size grows to pos");
    assert!(color_at(&m, x) == before, "old bytes keep their colour, new bytes are Pending (never sent)");
    assert!(m.sent() == sent_before, "appending does not change the amount sent");
    assert!(m.0.len() <= N + 1);
    kani::cover!(m.0.len() == N + 1, "new Pending boundary");
    kani::cover!(N == 0 || (pos > size && m.0.len() == N), "Pending suffix extended");
}

fn sent_step<const N: usize>() {
    let (m, _pre) = any_map::<N>();
    let x = any_probe(&m);
    let sent = m.sent();
    assert!(sent <= m.size());
    assert!((color_at(&m, x) == Color::Pending) == (x >= sent), "sent() is exactly the start of the never-sent suffix");
    kani::cover!(N == 0 || sent < m.size(), "some byte never sent");
    kani::cover!(sent == m.size(), "everything sent");
}

fn shift_step<const N: usize>() {
    let (mut m, pre) = any_map::<N>();
    let size = m.size();
    let x = any_probe(&m);
    let before = color_at(&m, x);

    let r = m.shift();

    check_inv(&m);
    assert!(m.size() == size && r <= size);
    assert!(color_at(&m, x) == before, "dropping the acked prefix changes no colour");
    if x < r {
        assert!(before == Color::Recved, "everything below the returned position is acked");
    }
    match m.0.front() {
        Some(s) => assert!(s.color() != Color::Recved && s.offset() == r, "returns the first boundary that is not acked"),
        None => assert!(r == size, "everything acked: returns the size"),
    }
    if N > 0 {
        assert!(m.0.len() == if pre[0].color() == Color::Recved { N - 1 } else { N });
    }
    kani::cover!(N == 0 || m.0.len() == N - 1, "acked prefix dropped");
    kani::cover!(N == 0 || m.0.len() == N, "nothing to drop");
}

fn resend_step<const N: usize>() {
    let (mut m, _pre) = any_map::<N>();
    let size = m.size();
    let x = any_probe(&m);
    let before = color_at(&m, x);

    m.resend_flighting();

    check_inv(&m);
    assert!(m.size() == size && m.0.len() == N);
    let expect = if before == Color::Flighting { Color::Lost } else { before };
    assert!(color_at(&m, x) == expect, "every byte in flight is offered again, nothing else changes");
    kani::cover!(N == 0 || before == Color::Flighting, "byte in flight");
}

#[kani::proof]
#[kani::unwind(8)]
fn c09_small_ops_n0() {
    extend_step::<0>();
    sent_step::<0>();
    shift_step::<0>();
    resend_step::<0>();
}

#[kani::proof]
#[kani::unwind(8)]
fn c09_small_ops_n1() {
    extend_step::<1>();
    sent_step::<1>();
    shift_step::<1>();
    resend_step::<1>();
}

#[kani::proof]
#[kani::unwind(8)]
fn c09_small_ops_n2() {
    extend_step::<2>();
    sent_step::<2>();
    shift_step::<2>();
    resend_step::<2>();
}

#[kani::proof]
#[kani::unwind(8)]
fn c09_small_ops_n3() {
    extend_step::<3>();
    sent_step::<3>();
    shift_step::<3>();
    resend_step::<3>();
}

#[kani::proof]
#[kani::unwind(8)]
fn c09_small_ops_n4() {
    extend_step::<4>();
    sent_step::<4>();
    shift_step::<4>();
    resend_step::<4>();
}
