// Compiled at the crate root of qrecovery (overlay, cfg(kani) only). Property C01.
// `send::sndbuf` and `recv::rcvbuf` are private modules of different parents, so the composition
// harness (compiled inside send::sndbuf, where it can see SendBuf's fields) reaches the private
// fields of RecvBuf through this crate-visible trait, implemented in c01_rcv_shape.rs (compiled
// inside recv::rcvbuf).

pub(crate) trait RcvShape {
    /// Number of stored segments.
    fn c01_segments(&self) -> usize;
    /// Shape of the harness instance: assume exactly K stored segments and rebuild the segment
    /// list element by element so that its length is a concrete value for the symbolic execution
    /// of the next step (offsets and contents stay symbolic).
    fn c01_shape<const K: usize>(&mut self);
}
