// Kani harnesses compiled inside qrecovery::recv::recver (overlay, cfg(kani) only).
// Property C01, part (b), receiving side of the end-of-stream mark. One `Incoming::recv_data`
// step of the REAL receiver state machine from a symbolic state (Recv or SizeKnown; receive
// buffer with 0 or 1 stored segment inside a 6-byte window, built through RecvBuf's own API;
// some prefix already read), followed by what the reader then sees:
//   * the stream becomes DataRcvd (all data present) exactly when the contiguous prefix reaches
//     the final size — never while a byte is missing; a FIN alone only fixes the size;
//   * in every state before DataRcvd a read either yields >= 1 byte or parks the reader: it NEVER
//     completes with 0 bytes (which the application would take for end-of-stream);
//   * in DataRcvd reads yield the remaining bytes in order and report end-of-stream (0 bytes)
//     only when nread == final size; then the state is DataRead and stays EOF.
// Error answers (final size contradictions, flow control) are C11/C12's claims; here the frames
// are consistent with one stream of final size F (what the peer's sender emits: c01_fin_sender.rs),
// delivered in any order, duplicated, FIN before or after data.
use core::task::{Context, Poll};

use bytes::BufMut;
use qbase::{role::Role, sid::Dir};

use super::*;

include!("../qbase/wake_common.rs");
use vwk::{waker, wakes};

const W: u64 = 6;
static SEQ: [u8; 8] = [0, 1, 2, 3, 4, 5, 6, 7];

fn content(from: u64, to: u64) -> Bytes {
    Bytes::from_static(&SEQ).slice(from as usize..to as usize)
}

#[derive(Clone, Debug)]
struct Broker;
static mut SENT: u32 = 0;
impl SendFrame<MaxStreamDataFrame> for Broker {
    fn send_frame<I: IntoIterator<Item = MaxStreamDataFrame>>(&self, iter: I) {
        for _f in iter {
            unsafe { SENT += 1 };
        }
    }
}
impl SendFrame<StopSendingFrame> for Broker {
    fn send_frame<I: IntoIterator<Item = StopSendingFrame>>(&self, iter: I) {
        for _f in iter {
            unsafe { SENT += 1 };
        }
    }
}

fn stub_mutex_lock<T: ?Sized>(m: &std::sync::Mutex<T>) -> std::sync::LockResult<std::sync::MutexGuard<'_, T>> {
    match m.try_lock() {
        Ok(g) => Ok(g),
        Err(std::sync::TryLockError::Poisoned(p)) => Err(p),
        Err(std::sync::TryLockError::WouldBlock) => panic!("self-deadlock: mutex already held"),
    }
}
fn stub_fmt(_a: core::fmt::Arguments<'_>) -> String {
    String::new()
}
fn stub_slice_index_fail(_s: usize, _e: usize, _l: usize) -> ! {
    panic!("slice index out of range")
}

/// The reader's buffer: records instead of copying (content is never copied, so the byte at
/// stream offset y lives at address SEQ + y; see c01_compose.rs).
struct Sink {
    cap: usize,
    pos: usize,
    in_order: bool,
    next: u64,
    dummy: [u8; 1],
}
impl Sink {
    fn new(cap: usize, first: u64) -> Self {
        Sink { cap, pos: 0, in_order: true, next: first, dummy: [0] }
    }
}
unsafe impl BufMut for Sink {
    fn remaining_mut(&self) -> usize {
        self.cap - self.pos
    }
    unsafe fn advance_mut(&mut self, _cnt: usize) {
        panic!("raw chunk access is not used by RecvBuf::try_read");
    }
    fn chunk_mut(&mut self) -> &mut bytes::buf::UninitSlice {
        panic!("raw chunk access is not used by RecvBuf::try_read");
        #[allow(unreachable_code)]
        bytes::buf::UninitSlice::new(&mut self.dummy[..])
    }
    fn put<T: bytes::Buf>(&mut self, src: T)
    where
        Self: Sized,
    {
        let n = src.remaining();
        assert!(n <= self.cap - self.pos, "advance out of bounds");
        if n > 0 {
            let s = src.chunk();
            assert!(s.len() == n, "a Bytes is one contiguous chunk");
            if !core::ptr::eq(s.as_ptr(), SEQ.as_ptr().wrapping_add(self.next as usize)) {
                self.in_order = false;
            }
            self.next += n as u64;
            self.pos += n;
        }
        core::mem::forget(src);
    }
}

fn any_sid() -> StreamId {
    let id: u64 = kani::any();
    kani::assume(id < (1u64 << 60));
    StreamId::new(
        if kani::any() { Role::Client } else { Role::Server },
        if kani::any() { Dir::Bi } else { Dir::Uni },
        id,
    )
}

/// Receive buffer of a stream whose content is SEQ[0..f): NREAD bytes already read, and (if A < B)
/// one further stored segment [A, B) with NREAD <= A. The pre-state is concrete per harness instance
/// (symbolic buffer shapes are C08's business and make every RecvBuf call cost minutes); the final
/// size, the arriving frame and the reader's capacity are symbolic.
/// Returns (buffer, nread, contiguous end).
fn any_rcvbuf<const NREAD: u64, const A: u64, const B: u64>() -> (rcvbuf::RecvBuf, u64, u64) {
    let mut buf = rcvbuf::RecvBuf::default();
    let nread: u64 = NREAD;
    if nread > 0 {
        buf.recv(0, content(0, nread));
        let mut sink = Sink::new(8, 0);
        let n = buf.try_read(&mut sink);
        assert!(n as u64 == nread);
    }
    let mut contiguous = nread;
    if A < B {
        assert!(nread <= A);
        buf.recv(A, content(A, B));
        if A == nread {
            contiguous = B;
        }
    }
    assert!(buf.nread() == nread && buf.nread() + buf.available() == contiguous);
    (buf, nread, contiguous)
}

/// `Incoming::recv_data` on a receiver state held on the stack. CBMC cannot constant-fold a state
/// behind `Arc<Mutex<..>>` (heap objects are byte arrays to it) and then walks every arm of every
/// match with every RecvBuf operation in it (measured: no instance finishes in 600 s). This is a
/// line-by-line transcription of the body of `Incoming::recv_data` (recv/incoming.rs) — the ONE
/// non-real part of these harnesses; every function it calls is the real one.
fn incoming_recv_data(state: Recver<Broker>, stream_frame: StreamFrame, body: Bytes) -> (Recver<Broker>, Result<(bool, usize), QuicError>) {
    let mut is_into_rcvd = false;
    let fresh_data;
    let mut receiving_state = state;
    match &mut receiving_state {
        Recver::Recv(r) => {
            if stream_frame.is_fin() {
                let mut size_known = match r.determin_size(&stream_frame) {
                    Ok(s) => s,
                    Err(e) => return (receiving_state, Err(e)),
                };
                fresh_data = match size_known.recv(stream_frame, body) {
                    Ok(n) => n,
                    Err(e) => return (receiving_state, Err(e)),
                };
                if size_known.is_all_rcvd() {
                    is_into_rcvd = true;
                    let old = core::mem::replace(&mut receiving_state, Recver::DataRcvd(size_known.upgrade()));
                    core::mem::forget(old);
                    core::mem::forget(size_known);
                } else {
                    let old = core::mem::replace(&mut receiving_state, Recver::SizeKnown(size_known));
                    core::mem::forget(old);
                }
            } else {
                fresh_data = match r.recv(stream_frame, body) {
                    Ok(n) => n,
                    Err(e) => return (receiving_state, Err(e)),
                };
            }
        }
        Recver::SizeKnown(r) => {
            fresh_data = match r.recv(stream_frame, body) {
                Ok(n) => n,
                Err(e) => return (receiving_state, Err(e)),
            };
            if r.is_all_rcvd() {
                is_into_rcvd = true;
                let up = r.upgrade();
                let old = core::mem::replace(&mut receiving_state, Recver::DataRcvd(up));
                core::mem::forget(old);
            }
        }
        _ => fresh_data = 0,
    }
    (receiving_state, Ok((is_into_rcvd, fresh_data)))
}

/// SIZE_KNOWN: the FIN arrived before (state SizeKnown) or not yet (state Recv).
fn recv_data_step<const NREAD: u64, const A: u64, const B: u64, const SIZE_KNOWN: bool>() {
    // the stream the peer is sending: F bytes (everything already buffered lies below F)
    let f: u64 = kani::any();
    kani::assume(f <= W && f >= NREAD && f >= B);
    let (rcvbuf, nread, contiguous) = any_rcvbuf::<NREAD, A, B>();
    let sid = any_sid();
    let parked: bool = kani::any();
    // a reader parks only when nothing is readable
    kani::assume(!parked || contiguous == nread);
    let read_waker = if parked { Some(waker(0)) } else { None };
    let largest = rcvbuf.largest_offset();
    let state = if SIZE_KNOWN {
        // all data present => the stream would already be DataRcvd
        kani::assume(contiguous < f);
        Recver::SizeKnown(SizeKnown { stream_id: sid, rcvbuf, read_waker, stop_state: None, broker: Broker, final_size: f })
    } else {
        let max_stream_data: u64 = kani::any();
        kani::assume(f <= max_stream_data && max_stream_data <= VARINT_MAX);
        Recver::Recv(Recv { stream_id: sid, rcvbuf, read_waker, stop_state: None, broker: Broker, largest, max_stream_data })
    };
    // a frame of that stream: [off, end) with end <= F; FIN only on a frame that ends at F
    let off: u64 = kani::any();
    let end: u64 = kani::any();
    kani::assume(off <= end && end <= f);
    let fin: bool = kani::any();
    kani::assume(!fin || end == f);
    kani::assume(off < end || fin);
    let mut frame = StreamFrame::new(sid, off, (end - off) as usize);
    frame.set_eos_flag(fin);

    let (mut state, res) = incoming_recv_data(state, frame, content(off, end));

    let (into_rcvd, fresh) = match res {
        Ok(v) => v,
        Err(e) => {
            core::mem::forget(e);
            panic!("frames consistent with one stream of final size F are never an error");
        }
    };
    // contiguous prefix after storing the frame
    let new_contiguous = if off <= contiguous && end > contiguous {
        // the frame extends the prefix; a stored segment that now touches it extends it further
        // (recomputed from the buffer below)
        end
    } else {
        contiguous
    };
    let size_known = SIZE_KNOWN || fin;
    let st = &mut state;
    let w1 = waker(1);
    let mut cx = Context::from_waker(&w1);
    let cap: usize = kani::any();
    kani::assume(cap >= 1 && cap <= 8);
    let mut sink = Sink::new(cap, nread);
    match st {
        Recver::Recv(r) => {
            assert!(!size_known && !into_rcvd, "without FIN the size stays unknown");
            let avail = r.rcvbuf.available();
            assert!(nread + avail >= new_contiguous);
            match r.poll_read(&mut cx, &mut sink) {
                Poll::Ready(()) => assert!(sink.pos >= 1 && avail > 0, "a read completes only with data: never a premature end-of-stream"),
                Poll::Pending => assert!(avail == 0 && sink.pos == 0 && r.read_waker.is_some(), "nothing readable: the reader is parked"),
            }
            assert!(sink.in_order && sink.pos as u64 == if (cap as u64) < avail { cap as u64 } else { avail });
        }
        Recver::SizeKnown(r) => {
            assert!(size_known && !into_rcvd);
            assert!(r.final_size == f, "final size == end of the FIN frame");
            let avail = r.rcvbuf.available();
            assert!(nread + avail >= new_contiguous && nread + avail < f, "still SizeKnown => a byte below the final size is missing");
            match r.poll_read(&mut cx, &mut sink) {
                Poll::Ready(()) => assert!(sink.pos >= 1 && avail > 0, "a read completes only with data: never a premature end-of-stream"),
                Poll::Pending => assert!(avail == 0 && sink.pos == 0 && r.read_waker.is_some(), "nothing readable: the reader is parked"),
            }
            assert!(sink.in_order);
        }
        Recver::DataRcvd(r) => {
            assert!(size_known && into_rcvd, "DataRcvd only once the final size is known");
            let avail = r.rcvbuf.available();
            assert!(r.rcvbuf.nread() == nread && nread + avail == f, "DataRcvd <=> every byte up to the final size is present");
            assert!(wakes(0) == if parked { 1 } else { 0 }, "the parked reader is woken exactly once");
            // what Reader::poll_read does in this state
            r.poll_read(&mut sink);
            let n = sink.pos as u64;
            assert!(n == if (cap as u64) < avail { cap as u64 } else { avail } && sink.in_order, "the remaining bytes, in order");
            assert!((n == 0) == (nread == f), "end-of-stream (0 bytes) is reported only after the last byte was read");
            assert!(r.is_all_read() == (nread + n == f), "DataRead exactly when everything was read");
            kani::cover!(SIZE_KNOWN || B > NREAD || n == 0, "EOF");
            kani::cover!(n > 0 && nread + n < f, "partial read before EOF");
        }
        _ => panic!("unexpected state"),
    }
    if parked && !matches!(st, Recver::DataRcvd(_)) {
        // the FIN, or data that makes the stream readable, wakes the parked reader
        let readable_now = match st {
            Recver::Recv(r) => r.rcvbuf.nread() + r.rcvbuf.available() > nread || sink.pos > 0,
            Recver::SizeKnown(r) => r.rcvbuf.nread() + r.rcvbuf.available() > nread || sink.pos > 0,
            _ => false,
        };
        if readable_now {
            assert!(wakes(0) >= 1, "data became readable: the parked reader was woken");
        }
    }
    assert!(fresh as u64 <= end - off);
    kani::cover!(into_rcvd && fin, "FIN completes the stream");
    kani::cover!(!SIZE_KNOWN || (into_rcvd && !fin), "the last missing bytes arrive after the FIN");
    kani::cover!(fin && !into_rcvd, "FIN before the data: size known, bytes missing");
    core::mem::forget(state);
}

macro_rules! fin_harness {
    ($name:ident, $call:expr) => {
        #[kani::proof]
        #[kani::unwind(6)]
        #[kani::stub(std::sync::Mutex::lock, stub_mutex_lock)]
        #[kani::stub(alloc::fmt::format, stub_fmt)]
        #[kani::stub(core::slice::index::slice_index_fail, stub_slice_index_fail)]
        fn $name() {
            $call;
        }
    };
}

// Instances of the pre-state: (NREAD, [A, B)) = nothing yet; 1 byte read + hole + [3,5); 2 bytes
// read + adjacent unread [2,4).
fin_harness!(c01_fin_recv_data_empty, recv_data_step::<0, 0, 0, false>());
fin_harness!(c01_fin_recv_data_read2, recv_data_step::<2, 0, 0, false>());
fin_harness!(c01_fin_recv_data_hole, recv_data_step::<1, 3, 5, false>());
fin_harness!(c01_fin_recv_data_adjacent, recv_data_step::<2, 2, 4, false>());
fin_harness!(c01_fin_size_known_empty, recv_data_step::<0, 0, 0, true>());
fin_harness!(c01_fin_size_known_hole, recv_data_step::<1, 3, 5, true>());
fin_harness!(c01_fin_size_known_adjacent, recv_data_step::<2, 2, 4, true>());
