// Kani harness compiled inside qrecovery::streams::raw (overlay injection, cfg(kani) only).
// Property C12, direction clause: a peer that sends on a stream it may only receive on (or sends
// receiver-side frames for a stream it may only send on) is answered with STREAM_STATE_ERROR; a
// peer-initiated id beyond the advertised count with STREAM_LIMIT_ERROR; the two are never
// confused. The REAL `DataStreams::recv_data` / `recv_stream_control` are run on a DataStreams
// that holds no streams, for every 62-bit stream id, both local roles, every stream-related
// frame type, arbitrary advertised stream counts.
use qbase::{
    frame::{
        FrameType, MaxStreamDataFrame, StopSendingFrame, StreamDataBlockedFrame,
    },
    sid::handy::DemandConcurrency,
    varint::VARINT_MAX,
};

use super::*;

#[derive(Clone, Debug)]
struct Sink;

static mut SENT: u32 = 0;

impl SendFrame<StreamCtlFrame> for Sink {
    fn send_frame<I: IntoIterator<Item = StreamCtlFrame>>(&self, iter: I) {
        for _f in iter {
            unsafe { SENT += 1 };
        }
    }
}

fn stub_fmt(_args: core::fmt::Arguments<'_>) -> String {
    String::new()
}

fn stub_write(_o: &mut dyn core::fmt::Write, _a: core::fmt::Arguments<'_>) -> core::fmt::Result {
    Ok(())
}

fn any_role() -> Role {
    if kani::any() { Role::Client } else { Role::Server }
}

#[derive(Clone, Copy, PartialEq)]
enum Verdict {
    StreamState,
    StreamLimit,
    Accepted,
}

fn empty_streams(role: Role, peer_bi: u64, peer_uni: u64) -> DataStreams<Sink> {
    DataStreams {
        ctrl_frames: Sink,
        role,
        stream_ids: StreamIds::new(
            role,
            peer_bi,
            peer_uni,
            0,
            0,
            Ext(Sink),
            Box::new(DemandConcurrency),
            ArcSendWakers::default(),
        ),
        output: ArcOutput::new(),
        input: ArcInput::default(),
        listener: ArcListener::new(),
        tls_fin: AtomicBool::new(false),
        tx_wakers: ArcSendWakers::default(),
        initial_max_stream_data_bidi_local: 0,
        initial_max_stream_data_bidi_remote: 0,
        initial_max_stream_data_uni: 0,
        metrics: None,
    }
}

/// One frame of KIND (0 STREAM, 1 RESET_STREAM, 2 STOP_SENDING, 3 MAX_STREAM_DATA,
/// 4 STREAM_DATA_BLOCKED) for the stream (initiator, dir, symbolic index) delivered to a fresh
/// DataStreams of role `role`. Roles/directions are concrete per call so that symbolic execution
/// only walks the guard that is being decided (a symbolic role/direction makes CBMC walk the
/// whole stream-creation path, which does not finish).
fn deliver<const KIND: u8>(role: Role, initiator: Role, dir: Dir) -> Verdict {
    let ds = empty_streams(role, 0, 0);
    let id: u64 = kani::any();
    kani::assume(id < (1u64 << 60));
    let sid = StreamId::new(initiator, dir, id);
    let v = VarInt::from_u32(0);
    let res: Result<usize, QuicError> = match KIND {
        0 => ds.recv_data((StreamFrame::new(sid, 0, 0), Bytes::new())),
        1 => ds.recv_stream_control(StreamCtlFrame::ResetStream(ResetStreamFrame::new(sid, v, v))),
        2 => ds.recv_stream_control(StreamCtlFrame::StopSending(StopSendingFrame::new(sid, v))),
        3 => ds.recv_stream_control(StreamCtlFrame::MaxStreamData(MaxStreamDataFrame::new(sid, v))),
        _ => ds.recv_stream_control(StreamCtlFrame::StreamDataBlocked(StreamDataBlockedFrame::new(sid, v))),
    };
    let fty = match KIND {
        0 => StreamFrame::new(sid, 0, 0).frame_type(),
        1 => FrameType::ResetStream,
        2 => FrameType::StopSending,
        3 => FrameType::MaxStreamData,
        _ => FrameType::StreamDataBlocked,
    };
    let got = match &res {
        Ok(n) => {
            assert!(*n == 0);
            Verdict::Accepted
        }
        Err(e) => {
            assert!(e.frame_type() == fty.into(), "the error names the offending frame type");
            match e.kind() {
                ErrorKind::StreamState => Verdict::StreamState,
                ErrorKind::StreamLimit => Verdict::StreamLimit,
                _ => panic!("unexpected error kind"),
            }
        }
    };
    assert!(unsafe { SENT } == 0);
    core::mem::forget(res);
    core::mem::forget(ds);
    got
}

/// Frames only the stream's SENDER may send (STREAM, RESET_STREAM, STREAM_DATA_BLOCKED), RFC 9000
/// §19.4/§19.8/§19.13: on a locally initiated unidirectional stream (only we can send)
/// -> STREAM_STATE_ERROR; on a locally initiated bidirectional stream -> accepted.
/// Every stream index, both local roles.
fn sender_frame_guard<const KIND: u8>() {
    assert!(deliver::<KIND>(Role::Client, Role::Client, Dir::Uni) == Verdict::StreamState);
    assert!(deliver::<KIND>(Role::Server, Role::Server, Dir::Uni) == Verdict::StreamState);
    assert!(deliver::<KIND>(Role::Client, Role::Client, Dir::Bi) == Verdict::Accepted);
    assert!(deliver::<KIND>(Role::Server, Role::Server, Dir::Bi) == Verdict::Accepted);
    kani::cover!(true, "all four role/direction combinations decided");
}

/// Frames only the stream's RECEIVER may send (STOP_SENDING, MAX_STREAM_DATA), RFC 9000
/// §19.5/§19.10: on a peer-initiated unidirectional stream (only the peer can send)
/// -> STREAM_STATE_ERROR; on any locally initiated stream -> accepted.
fn receiver_frame_guard<const KIND: u8>() {
    assert!(deliver::<KIND>(Role::Client, Role::Server, Dir::Uni) == Verdict::StreamState);
    assert!(deliver::<KIND>(Role::Server, Role::Client, Dir::Uni) == Verdict::StreamState);
    assert!(deliver::<KIND>(Role::Client, Role::Client, Dir::Uni) == Verdict::Accepted);
    assert!(deliver::<KIND>(Role::Server, Role::Server, Dir::Uni) == Verdict::Accepted);
    assert!(deliver::<KIND>(Role::Client, Role::Client, Dir::Bi) == Verdict::Accepted);
    assert!(deliver::<KIND>(Role::Server, Role::Server, Dir::Bi) == Verdict::Accepted);
    kani::cover!(true, "all six role/direction combinations decided");
}

macro_rules! dir_harness {
    ($name:ident, $f:ident, $k:expr) => {
        #[kani::proof]
        #[kani::unwind(6)]
        #[kani::stub(std::fmt::format, stub_fmt)]
        #[kani::stub(core::fmt::write, stub_write)]
        fn $name() {
            $f::<$k>();
        }
    };
}

dir_harness!(c12_direction_stream, sender_frame_guard, 0);
dir_harness!(c12_direction_reset_stream, sender_frame_guard, 1);
dir_harness!(c12_direction_stream_data_blocked, sender_frame_guard, 4);
dir_harness!(c12_direction_stop_sending, receiver_frame_guard, 2);
dir_harness!(c12_direction_max_stream_data, receiver_frame_guard, 3);

/// A peer-initiated id beyond the advertised count: the `ExceedLimitError` produced by the real
/// `ArcRemoteStreamIds::try_accept_sid` is mapped by `wrapper_error` to STREAM_LIMIT_ERROR
/// carrying the offending frame's type (the decision *when* the error is produced is C12's
/// c12_remote_accept_step in qbase).
#[kani::proof]
#[kani::unwind(6)]
#[kani::stub(std::fmt::format, stub_fmt)]
#[kani::stub(core::fmt::write, stub_write)]
fn c12_direction_limit_error_mapping() {
    let role = any_role();
    let dir = if kani::any() { Dir::Bi } else { Dir::Uni };
    let limit: u64 = kani::any();
    let id: u64 = kani::any();
    kani::assume(limit < id && id < (1u64 << 60));
    let remote = qbase::sid::ArcRemoteStreamIds::new(role, limit, limit, Ext(Sink), Box::new(DemandConcurrency));
    let sid = StreamId::new(role, dir, id);
    let fty = if kani::any() { FrameType::ResetStream } else { FrameType::MaxStreamData };
    match remote.try_accept_sid(sid) {
        Err(e) => {
            let q = wrapper_error(fty)(e);
            assert!(q.kind() == ErrorKind::StreamLimit, "STREAM_LIMIT_ERROR");
            assert!(q.frame_type() == fty.into());
            core::mem::forget(q);
        }
        Ok(_) => panic!("an id beyond the advertised count was accepted"),
    }
    kani::cover!(limit == 0 && id == 1);
    core::mem::forget(remote);
}
