// Kani harness compiled inside qrecovery::streams::raw (overlay injection, cfg(kani) only).
// Property C12, direction clause: a peer that sends on a stream it may only receive on (or sends
// receiver-side frames for a stream it may only send on) is answered with STREAM_STATE_ERROR; a
// peer-initiated id beyond the advertised count with STREAM_LIMIT_ERROR; the two are never
// confused. The REAL `DataStreams::recv_data` / `recv_stream_control` are run on a DataStreams
// that holds no streams, for every 62-bit stream id (so: every initiator / direction / index),
// both local roles, every stream-related frame type, arbitrary advertised stream counts.
//
// CUT (measured: without it not even the error-only path of one frame kind with concrete role and
// direction finishes in 400 s): `StreamId::role()/dir()` test bits of a symbolic u64, so symbolic
// execution walks BOTH sides of every role/direction guard, and the peer-initiated side ends in
// `DataStreams::try_accept_sid` -> `try_accept_{bi,uni}_sid`, which creates the Outgoing/Incoming
// halves (ArcSender/ArcRecver, BTreeMap/HashMap inserts, listener queue, wakers) of every stream
// from the cursor up to the id. That function is stubbed by `stub_try_accept`, which
//   * records that the accept path was taken, and with which id,
//   * runs the REAL limit test and cursor update (`ArcRemoteStreamIds::try_accept_sid`, the only
//     fallible step of the original) and returns its verdict,
//   * does not create the stream objects.
// Hence what is decided here is exactly the guard: f(frame kind, local role, sid) ->
// {STREAM_STATE_ERROR, accept path (then STREAM_LIMIT_ERROR iff the real limit test says so),
// local path}. What is lost: the creation loop itself ("each implicitly opened stream is handed to
// the listener exactly once") is only covered at the id level (c12_need_create_step,
// c12_remote_accept_enumerates in qbase).
use qbase::{
    frame::{
        FrameType, MaxStreamDataFrame, StopSendingFrame, StreamDataBlockedFrame,
    },
    sid::handy::DemandConcurrency,
    varint::VARINT_MAX,
};

use super::*;

#[derive(Clone, Debug)]
struct Sink;

static mut SENT: u32 = 0;
static mut ACCEPT_CALLS: u32 = 0;
static mut ACCEPT_SID: u64 = 0;

impl SendFrame<StreamCtlFrame> for Sink {
    fn send_frame<I: IntoIterator<Item = StreamCtlFrame>>(&self, iter: I) {
        for _f in iter {
            unsafe { SENT += 1 };
        }
    }
}

fn stub_fmt(_args: core::fmt::Arguments<'_>) -> String {
    String::new()
}

fn stub_write(_o: &mut dyn core::fmt::Write, _a: core::fmt::Arguments<'_>) -> core::fmt::Result {
    Ok(())
}

/// std::sync::Mutex::lock without the futex slow path (NOTES-tracing.md): single-threaded harness,
/// a lock that is not immediately available is a self-deadlock of the real code and is reported.
fn stub_lock<T: ?Sized>(m: &std::sync::Mutex<T>) -> std::sync::LockResult<std::sync::MutexGuard<'_, T>> {
    match m.try_lock() {
        Ok(g) => Ok(g),
        Err(std::sync::TryLockError::Poisoned(p)) => Err(p),
        Err(std::sync::TryLockError::WouldBlock) => panic!("self-deadlock: mutex already held"),
    }
}

/// Stub for `DataStreams::try_accept_sid` (see the header): real limit test, no stream creation.
fn stub_try_accept<TX>(ds: &DataStreams<TX>, sid: StreamId) -> Result<(), ExceedLimitError>
where
    TX: SendFrame<StreamCtlFrame> + Clone + Send + 'static,
{
    unsafe {
        ACCEPT_CALLS += 1;
        ACCEPT_SID = VarInt::from(sid).into_u64();
    }
    match ds.stream_ids.remote.try_accept_sid(sid) {
        Ok(a) => {
            core::mem::forget(a);
            Ok(())
        }
        Err(e) => Err(e),
    }
}

/// The DataStreams under test holds no stream, so the per-stream handlers behind the (empty)
/// BTreeMap / HashMap lookups are unreachable; CBMC nevertheless walks them symbolically (1.3 M SSA
/// steps, 32 M clauses for STOP_SENDING). They are replaced by stubs that FAIL when reached, so the
/// cut cannot hide anything: reaching one is reported as a failed check.
fn stub_be_stopped<TX>(_o: &Outgoing<TX>, _error_code: u64) -> Option<u64> {
    panic!("per-stream handler reached although no stream exists")
}
fn stub_update_window<TX>(_o: &Outgoing<TX>, _max_stream_data: u64) {
    panic!("per-stream handler reached although no stream exists")
}
fn stub_in_recv_data<TX>(_i: &Incoming<TX>, _f: StreamFrame, _b: Bytes) -> Result<(bool, usize), QuicError>
where
    TX: SendFrame<qbase::frame::StopSendingFrame> + SendFrame<MaxStreamDataFrame> + Clone + Send + 'static,
{
    panic!("per-stream handler reached although no stream exists")
}
fn stub_in_recv_reset<TX>(_i: &Incoming<TX>, _f: ResetStreamFrame) -> Result<usize, QuicError>
where
    TX: SendFrame<qbase::frame::StopSendingFrame> + SendFrame<MaxStreamDataFrame> + Clone + Send + 'static,
{
    panic!("per-stream handler reached although no stream exists")
}

fn any_role() -> Role {
    if kani::any() { Role::Client } else { Role::Server }
}

#[derive(Clone, Copy, PartialEq)]
enum Verdict {
    StreamState,
    StreamLimit,
    Accepted,
}

fn empty_streams(role: Role, peer_bi: u64, peer_uni: u64) -> DataStreams<Sink> {
    DataStreams {
        ctrl_frames: Sink,
        role,
        stream_ids: StreamIds::new(
            role,
            peer_bi,
            peer_uni,
            0,
            0,
            Ext(Sink),
            Box::new(DemandConcurrency),
            ArcSendWakers::default(),
        ),
        output: ArcOutput::new(),
        input: ArcInput::default(),
        listener: ArcListener::new(),
        tls_fin: AtomicBool::new(false),
        tx_wakers: ArcSendWakers::default(),
        initial_max_stream_data_bidi_local: 0,
        initial_max_stream_data_bidi_remote: 0,
        initial_max_stream_data_uni: 0,
        metrics: None,
    }
}

/// One frame of KIND (0 STREAM, 1 RESET_STREAM, 2 STOP_SENDING, 3 MAX_STREAM_DATA,
/// 4 STREAM_DATA_BLOCKED) for an ARBITRARY 62-bit stream id, delivered to a fresh DataStreams of
/// arbitrary role that advertised arbitrary stream counts. `uncreated_local_is_error` selects the
/// RFC's additional rule for locally initiated streams that were never opened (pending harness).
fn guard_step<const KIND: u8>(uncreated_local_is_error: bool) {
    let role = any_role();
    let adv_bi: u64 = kani::any();
    let adv_uni: u64 = kani::any();
    kani::assume(adv_bi <= (1u64 << 60) && adv_uni <= (1u64 << 60));
    let ds = empty_streams(role, adv_bi, adv_uni);
    let raw: u64 = kani::any();
    kani::assume(raw <= VARINT_MAX);
    let sid = StreamId::from(VarInt::from_u64(raw).unwrap());
    let v = VarInt::from_u32(0);
    let res: Result<usize, QuicError> = match KIND {
        0 => ds.recv_data((StreamFrame::new(sid, 0, 0), Bytes::new())),
        1 => ds.recv_stream_control(StreamCtlFrame::ResetStream(ResetStreamFrame::new(sid, v, v))),
        2 => ds.recv_stream_control(StreamCtlFrame::StopSending(StopSendingFrame::new(sid, v))),
        3 => ds.recv_stream_control(StreamCtlFrame::MaxStreamData(MaxStreamDataFrame::new(sid, v))),
        _ => ds.recv_stream_control(StreamCtlFrame::StreamDataBlocked(StreamDataBlockedFrame::new(sid, v))),
    };
    let fty = match KIND {
        0 => StreamFrame::new(sid, 0, 0).frame_type(),
        1 => FrameType::ResetStream,
        2 => FrameType::StopSending,
        3 => FrameType::MaxStreamData,
        _ => FrameType::StreamDataBlocked,
    };
    let got = match &res {
        Ok(n) => {
            assert!(*n == 0, "no stream exists: nothing is delivered");
            Verdict::Accepted
        }
        Err(e) => {
            assert!(e.frame_type() == fty.into(), "the error names the offending frame type");
            match e.kind() {
                ErrorKind::StreamState => Verdict::StreamState,
                ErrorKind::StreamLimit => Verdict::StreamLimit,
                _ => panic!("unexpected error kind"),
            }
        }
    };
    let calls = unsafe { ACCEPT_CALLS };
    let called_with = unsafe { ACCEPT_SID };

    // ---- oracle: RFC 9000 sections 2.1, 4.6, 19.4, 19.5, 19.8, 19.10, 19.13 -----------------
    let local = (raw & 1) == (role as u64); // initiated by this endpoint
    let uni = (raw & 2) != 0;
    let index = raw >> 2;
    let adv = if uni { adv_uni } else { adv_bi };
    // frames only the SENDER of stream data may send: STREAM, RESET_STREAM, STREAM_DATA_BLOCKED
    let sender_frame = KIND == 0 || KIND == 1 || KIND == 4;
    // the peer may send data on: its own streams (both kinds) and our bidirectional ones;
    // the peer may receive data on: our streams (both kinds) and its bidirectional ones
    let wrong_direction = if sender_frame { local && uni } else { !local && uni };
    let accept_path = !wrong_direction && !local;
    // (index == advertised count: suspected defect #10 of the limit test, see c12_remote_accept_step_boundary_pending)
    kani::assume(!(accept_path && index == adv));
    let expect = if wrong_direction {
        Verdict::StreamState
    } else if accept_path && index > adv {
        Verdict::StreamLimit
    } else if uncreated_local_is_error && local {
        Verdict::StreamState
    } else {
        Verdict::Accepted
    };
    assert!(got == expect, "STREAM_STATE_ERROR iff the peer is not entitled to send this frame on this stream; STREAM_LIMIT_ERROR iff peer-initiated beyond the advertised count; else accepted");
    assert!(calls == accept_path as u32 && (!accept_path || called_with == raw),
        "the accept path (implicit opening) is entered exactly once, with this id, iff the stream is peer-initiated and the frame is allowed on it");
    assert!(unsafe { SENT } == 0, "nothing is emitted");
    // witnesses (those that the frame kind admits)
    kani::cover!(got == Verdict::StreamState && (local == sender_frame), "wrong direction: sender-side frame on our send-only stream / receiver-side frame on the peer's send-only stream");
    kani::cover!(got == Verdict::StreamLimit && (uni == sender_frame), "beyond the advertised count (sender-side frame: uni; receiver-side frame: bidi)");
    kani::cover!(got == Verdict::StreamLimit && !uni, "beyond the advertised count (bidi)");
    kani::cover!(got == Verdict::Accepted && !local && index > 0, "peer-initiated within the count");
    kani::cover!(uncreated_local_is_error || (got == Verdict::Accepted && local), "locally initiated, right direction");
    core::mem::forget(res);
    core::mem::forget(ds);
}

macro_rules! dir_harness {
    ($name:ident, $k:expr, $strict:expr) => {
        #[kani::proof]
        #[kani::unwind(6)]
        #[kani::stub(std::fmt::format, stub_fmt)]
        #[kani::stub(core::fmt::write, stub_write)]
        #[kani::stub(std::sync::Mutex::lock, stub_lock)]
        #[kani::stub(DataStreams::try_accept_sid, stub_try_accept)]
        #[kani::stub(Outgoing::be_stopped, stub_be_stopped)]
        #[kani::stub(Outgoing::update_window, stub_update_window)]
        #[kani::stub(Incoming::recv_data, stub_in_recv_data)]
        #[kani::stub(Incoming::recv_reset, stub_in_recv_reset)]
        fn $name() {
            guard_step::<$k>($strict);
        }
    };
}

dir_harness!(c12_direction_stream, 0, false);
dir_harness!(c12_direction_reset_stream, 1, false);
dir_harness!(c12_direction_stop_sending, 2, false);
dir_harness!(c12_direction_max_stream_data, 3, false);
dir_harness!(c12_direction_stream_data_blocked, 4, false);

// pending (outside the statement of C12, observed while writing the oracle): RFC 9000 section 19.8 "An
// endpoint MUST terminate the connection with error STREAM_STATE_ERROR if it receives a STREAM
// frame for a locally initiated stream that has not yet been created", same in 19.5 (STOP_SENDING)
// and 19.10 (MAX_STREAM_DATA). The guards only look at role/direction: such frames are silently
// accepted (here: no stream was ever opened locally).
dir_harness!(c12_direction_pending_uncreated_local_stream, 0, true);
dir_harness!(c12_direction_pending_uncreated_local_max_stream_data, 3, true);

/// A peer-initiated id beyond the advertised count: the `ExceedLimitError` produced by the real
/// `ArcRemoteStreamIds::try_accept_sid` is mapped by `wrapper_error` to STREAM_LIMIT_ERROR
/// carrying the offending frame's type (the decision *when* the error is produced is C12's
/// c12_remote_accept_step in qbase).
#[kani::proof]
#[kani::unwind(6)]
#[kani::stub(std::fmt::format, stub_fmt)]
#[kani::stub(core::fmt::write, stub_write)]
fn c12_direction_limit_error_mapping() {
    let role = any_role();
    let dir = if kani::any() { Dir::Bi } else { Dir::Uni };
    let limit: u64 = kani::any();
    let id: u64 = kani::any();
    kani::assume(limit < id && id < (1u64 << 60));
    let remote = qbase::sid::ArcRemoteStreamIds::new(role, limit, limit, Ext(Sink), Box::new(DemandConcurrency));
    let sid = StreamId::new(role, dir, id);
    let fty = if kani::any() { FrameType::ResetStream } else { FrameType::MaxStreamData };
    match remote.try_accept_sid(sid) {
        Err(e) => {
            let q = wrapper_error(fty)(e);
            assert!(q.kind() == ErrorKind::StreamLimit, "STREAM_LIMIT_ERROR");
            assert!(q.frame_type() == fty.into());
            core::mem::forget(q);
        }
        Ok(_) => panic!("an id beyond the advertised count was accepted"),
    }
    kani::cover!(limit == 0 && id == 1);
    core::mem::forget(remote);
}
