// Helper compiled inside qrecovery::send::writer (overlay, cfg(kani) only). NO proof fn here.
// Property C11, stream-set level: the sender behind the `Writer` handed to the application by
// open_* / accept_bi (`Writer`'s fields are private to this module). Read-only observer.
use super::*;

impl<TX> Writer<TX> {
    pub(crate) fn c11s_sender(&self) -> &ArcSender<TX> {
        &self.inner
    }
}
