// Helper module compiled inside qrecovery::send::sndbuf (overlay, cfg(kani) only). NO proof fn here.
// Property C11, stream-set level: the Sender / Outgoing / DataStreams harnesses (c11s_sender.rs,
// c11s_streams.rs) need a SYMBOLIC send buffer (arbitrary colour map, as sndbuf_map.rs / sndbuf_buf.rs
// build it for C09) but live in other modules, where `SendBuf`'s fields are private. The builders
// and observers are therefore inherent `pub(crate)` methods of `SendBuf` defined here.
//
// Representation invariant JS (the one C09's sndbuf_buf.rs proves inductive for every SendBuf step):
//   * boundaries strictly increasing, every boundary < map size <= 2^62-1;
//   * Pending only as the colour of the LAST boundary; neighbours differ in colour except Lost|Lost;
//   * map size == min(written, max_data);
//   * the first boundary is not Recved and sits at `offset`; no boundary => offset == map size;
//   * `data` holds exactly the bytes [offset, written), in non-empty chunks.
// Stream content: the identity sequence over a concrete 8-byte window; the peer's window
// (`max_data`) is full width.
use super::*;

pub(crate) const C11S_W: u64 = 8;
static C11S_SEQ: [u8; 8] = [0, 1, 2, 3, 4, 5, 6, 7];
const C11S_LIM: u64 = (1 << 62) - 1;

pub(crate) const C11S_PENDING: u8 = 0;
pub(crate) const C11S_FLIGHT: u8 = 1;
pub(crate) const C11S_LOST: u8 = 2;
pub(crate) const C11S_RECVED: u8 = 3;

fn c11s_code(c: Color) -> u8 {
    match c {
        Color::Pending => C11S_PENDING,
        Color::Flighting => C11S_FLIGHT,
        Color::Lost => C11S_LOST,
        Color::Recved => C11S_RECVED,
    }
}

fn c11s_adjacent_ok(a: Color, b: Color) -> bool {
    a != Color::Pending && (a != b || a == Color::Lost)
}

impl SendBuf {
    /// Arbitrary SendBuf satisfying JS with exactly NS boundaries and NC stored chunks.
    /// Returns the buffer, the boundary offsets and the boundary colour codes.
    pub(crate) fn c11s_any<const NS: usize, const NC: usize>() -> (SendBuf, [u64; NS], [u8; NS]) {
        let offset: u64 = kani::any();
        kani::assume(offset <= C11S_W);
        let mut data: VecDeque<Bytes> = VecDeque::new();
        let mut pos = offset;
        let mut c = 0;
        while c < NC {
            let e: u64 = kani::any();
            kani::assume(e > pos && e <= C11S_W);
            data.push_back(Bytes::from_static(&C11S_SEQ).slice(pos as usize..e as usize));
            pos = e;
            c += 1;
        }
        let written = pos;
        let max_data: u64 = kani::any();
        kani::assume(max_data <= C11S_LIM);
        let size = if written < max_data { written } else { max_data };
        let mut st = BufMap::default();
        let mut offs = [0u64; NS];
        let mut cols = [0u8; NS];
        let mut prev = State(0);
        let mut i = 0;
        while i < NS {
            let s = State(kani::any());
            kani::assume(s.offset() < size);
            if i == 0 {
                kani::assume(s.offset() == offset && s.color() != Color::Recved);
            } else {
                kani::assume(prev.offset() < s.offset() && c11s_adjacent_ok(prev.color(), s.color()));
            }
            st.0.push_back(s);
            offs[i] = s.offset();
            cols[i] = c11s_code(s.color());
            prev = s;
            i += 1;
        }
        if NS == 0 {
            kani::assume(offset == size);
        }
        st.1 = size;
        (SendBuf { offset, data, max_data, state: st }, offs, cols)
    }

    /// Colour code of byte x (x < written): bytes beyond the map (beyond the peer's window) were
    /// never sent; bytes below the first boundary are acknowledged.
    pub(crate) fn c11s_color_at(&self, x: u64) -> u8 {
        if x >= self.state.size() {
            return C11S_PENDING;
        }
        let mut c = Color::Recved;
        let n = self.state.0.len();
        let mut i = 0;
        while i < n {
            let s = self.state.0[i];
            if s.offset() <= x {
                c = s.color();
            }
            i += 1;
        }
        c11s_code(c)
    }

    /// Size of the colour map == min(written, max_data) under JS.
    pub(crate) fn c11s_map_size(&self) -> u64 {
        self.state.size()
    }

    /// Asserts JS (structure; the stored-content clause is C09's).
    pub(crate) fn c11s_check_js(&self) {
        let m = &self.state;
        assert!(m.1 <= C11S_LIM, "JS: size <= 2^62-1");
        let n = m.0.len();
        let mut i = 0;
        while i < n {
            let s = m.0[i];
            assert!(s.offset() < m.1, "JS: boundary below size");
            if i > 0 {
                let p = m.0[i - 1];
                assert!(p.offset() < s.offset(), "JS: boundaries strictly increasing");
                assert!(p.color() != Color::Pending, "JS: Pending only as the last boundary");
                assert!(p.color() != s.color() || p.color() == Color::Lost, "JS: neighbours differ in colour (except Lost|Lost)");
            }
            i += 1;
        }
        let written = self.written();
        assert!(m.1 == if written < self.max_data { written } else { self.max_data }, "JS: map size == min(written, max_data)");
        match m.0.front() {
            Some(s) => assert!(s.color() != Color::Recved && s.offset() == self.offset, "JS: first boundary is unacked and sits at `offset`"),
            None => assert!(self.offset == m.1, "JS: no boundary: everything in the map is acked"),
        }
    }

    /// Independent oracle for one `pick_up` on a buffer whose map was (offs, cols, size): which range
    /// has to be offered. Returns (kind, start, end, fresh) with kind
    ///   0 = data [start, end) offered (fresh iff those bytes were never sent),
    ///   1 = the lowest offerable segment starts at `start` but the space predicate refused it,
    ///   2 = nothing to offer, 3 = nothing to offer and never-sent data is blocked by flow_limit == 0.
    /// Rule (RFC 9000 §4.1 / the documented behaviour of SendBuf::pick_up): the lowest Lost segment,
    /// or the never-sent suffix if flow_limit != 0, whichever comes first; a retransmission is limited
    /// by the predicate only, never-sent data also by flow_limit; never beyond the end of the segment.
    pub(crate) fn c11s_expect_pick<const NS: usize, P: Fn(u64) -> Option<usize>>(
        offs: &[u64; NS],
        cols: &[u8; NS],
        size: u64,
        flow_limit: usize,
        pred: &P,
    ) -> (u8, u64, u64, bool) {
        let mut cand: Option<usize> = None;
        let mut blocked_fresh = false;
        let mut i = 0;
        while i < NS {
            if cand.is_none() {
                if cols[i] == C11S_LOST {
                    cand = Some(i);
                } else if cols[i] == C11S_PENDING {
                    if flow_limit != 0 {
                        cand = Some(i);
                    } else {
                        blocked_fresh = true;
                    }
                }
            }
            i += 1;
        }
        match cand {
            None => (if blocked_fresh { 3 } else { 2 }, 0, 0, false),
            Some(i) => {
                let start = offs[i];
                let fresh = cols[i] == C11S_PENDING;
                match pred(start) {
                    None => (1, start, start, fresh),
                    Some(a) => {
                        let allowance = if fresh && flow_limit < a { flow_limit } else { a };
                        let seg_end = if i + 1 < NS { offs[i + 1] } else { size };
                        let end = if start + (allowance as u64) < seg_end { start + allowance as u64 } else { seg_end };
                        (0, start, end, fresh)
                    }
                }
            }
        }
    }
}

// ------------------------------------------------------------------------------------------------
// CONTRACT STUB for `SendBuf::pick_up` (used by the quick-tier pass-through harnesses; the
// composite harnesses *_real_* run the real function instead).
//
// It returns ANY result the contract of the real function allows — the contract that C09's
// c09_buf_pick_up_* harnesses (sndbuf_buf.rs) prove for the real function from every JS state:
//   Ok((range, fresh, chunks)): offset <= range.start < range.end <= min(written, max_data);
//       length <= predicate(range.start) (asked once); fresh => length <= flow_limit;
//       the chunks hold exactly the bytes of the range; `fresh` is true iff those bytes were never
//       sent before (colour Pending), false iff they were declared lost;
//   Err(signals): nothing offered.
// and records what it returned, so that the callers' outputs can be compared with it. What the
// Sender / Outgoing / DataStreams layers add on top (flag pass-through, FIN, the charge) is then
// decided for EVERY buffer state, not only for small colour maps.
static mut C11S_STUB_KIND: u8 = 0; // 0 not called, 1 Ok, 2 Err
static mut C11S_STUB_START: u64 = 0;
static mut C11S_STUB_END: u64 = 0;
static mut C11S_STUB_FRESH: bool = false;
static mut C11S_STUB_CALLS: u32 = 0;

pub(crate) fn c11s_stub_pick_up<P>(b: &mut SendBuf, predicate: P, flow_limit: usize) -> Result<(Range<u64>, bool, Vec<Bytes>), Signals>
where
    P: Fn(u64) -> Option<usize>,
{
    unsafe { C11S_STUB_CALLS += 1 };
    if kani::any() {
        let start: u64 = kani::any();
        let end: u64 = kani::any();
        kani::assume(b.offset <= start && start < end && end <= b.state.size() && end <= C11S_W);
        let fresh: bool = kani::any();
        let allowed = predicate(start);
        kani::assume(allowed.is_some());
        kani::assume(end - start <= allowed.unwrap() as u64);
        if fresh {
            kani::assume(end - start <= flow_limit as u64);
        }
        unsafe {
            C11S_STUB_KIND = 1;
            C11S_STUB_START = start;
            C11S_STUB_END = end;
            C11S_STUB_FRESH = fresh;
        }
        let mut chunks = Vec::with_capacity(1);
        chunks.push(Bytes::from_static(&C11S_SEQ).slice(start as usize..end as usize));
        Ok((start..end, fresh, chunks))
    } else {
        unsafe { C11S_STUB_KIND = 2 };
        Err(Signals::from_bits_truncate(kani::any()))
    }
}

impl SendBuf {
    /// What the contract stub returned last: (kind 0 not called / 1 Ok / 2 Err, start, end, fresh, number of calls).
    pub(crate) fn c11s_stub_record() -> (u8, u64, u64, bool, u32) {
        unsafe { (C11S_STUB_KIND, C11S_STUB_START, C11S_STUB_END, C11S_STUB_FRESH, C11S_STUB_CALLS) }
    }
}
