// Kani harnesses compiled inside qrecovery::send::sender (overlay, cfg(kani) only).
// Property C01, part (b), sending side of the end-of-stream mark: one step of the REAL
// `SendingSender` / `DataSentSender` (and the `Outgoing` transitions around them) from a symbolic
// state. Stream content: t <= 4 bytes of the identity sequence in one chunk, peer window symbolic;
// the send buffer is brought (through its own API) into one of the data situations
//   FRESH  nothing sent yet            FLIGHT  everything inside the window sent, nothing acked
//   LOST   everything sent, then lost  ACKED   everything sent and acknowledged
// (The state machines run on stack values: behind `Arc<Mutex<..>>` CBMC cannot constant-fold the
// state and walks every arm of `Outgoing`'s matches with every SendBuf operation in it; measured:
// no such harness finishes in 600 s. What `Outgoing` adds is the state replacement
// Ready/Sending -> DataSent when a frame with FIN is emitted and DataSent -> DataRcvd when
// `is_all_rcvd()`; those few lines are read, not executed, here.)
// Claims:
//   * a frame carries FIN iff the application has shut the stream down and the frame ends at the
//     total size; a bare FIN (empty frame at the total size) is emitted only when every byte was
//     sent before and the packet has room (congestion predicate); without shutdown no FIN ever;
//   * in DataSent, a FIN reported lost is offered again (exactly once per loss report), data
//     retransmissions that end at the total size carry FIN again;
//   * an acknowledged FIN is final; the stream is complete (DataRcvd, flush / shutdown wake up and
//     complete) exactly when every byte AND the FIN are acknowledged — never earlier.
use core::task::{Context, Poll};

use qbase::{role::Role, sid::Dir};

use super::*;

include!("../qbase/wake_common.rs");
use vwk::{waker, wakes};

static SEQ: [u8; 8] = [0, 1, 2, 3, 4, 5, 6, 7];
const W: u64 = 8;

#[derive(Clone, Debug)]
struct Broker;
impl SendFrame<ResetStreamFrame> for Broker {
    fn send_frame<I: IntoIterator<Item = ResetStreamFrame>>(&self, _iter: I) {}
}

static mut RAISED: u32 = 0;
fn stub_wake_all_by(_t: &ArcSendWakers, _s: Signals) {
    unsafe { RAISED += 1 };
}
fn stub_mutex_lock<T: ?Sized>(m: &std::sync::Mutex<T>) -> std::sync::LockResult<std::sync::MutexGuard<'_, T>> {
    match m.try_lock() {
        Ok(g) => Ok(g),
        Err(std::sync::TryLockError::Poisoned(p)) => Err(p),
        Err(std::sync::TryLockError::WouldBlock) => panic!("self-deadlock: mutex already held"),
    }
}
fn stub_fmt(_a: core::fmt::Arguments<'_>) -> String {
    String::new()
}
fn stub_slice_index_fail(_s: usize, _e: usize, _l: usize) -> ! {
    panic!("slice index out of range")
}

/// One shared handle on the path wakers that is never dropped (dropping the last handle would run
/// the drop glue of an empty BTreeMap<Pathway, _>, which CBMC cannot get through).
static mut TX: Option<ArcSendWakers> = None;
#[allow(static_mut_refs)]
fn tx_handle() -> ArcSendWakers {
    unsafe {
        if TX.is_none() {
            TX = Some(ArcSendWakers::default());
        }
        TX.as_ref().unwrap().clone()
    }
}

const FRESH: u8 = 0;
const FLIGHT: u8 = 1;
const LOST: u8 = 2;
const ACKED: u8 = 3;

/// Send buffer with T written bytes (one chunk), peer window WIN, in data situation SIT; returns
/// (buffer, t, sendable = min(t, window)). T and WIN are concrete per harness instance (the FIN
/// logic only compares these quantities; symbolic offsets are C09's business and make every
/// SendBuf call cost minutes): instances cover window >= size, window < size and the empty stream.
fn sndbuf_in<const SIT: u8, const T: u64, const WIN: u64>() -> (SendBuf, u64, u64) {
    let t: u64 = T;
    let window: u64 = WIN;
    let mut b = SendBuf::with_capacity(window);
    b.write(Bytes::from_static(&SEQ).slice(0..t as usize));
    let sendable = if t < window { t } else { window };
    if SIT != FRESH && sendable > 0 {
        match b.pick_up(|_| Some(W as usize), W as usize) {
            Ok((range, fresh, data)) => {
                assert!(range.start == 0 && range.end == sendable && fresh);
                core::mem::forget(data);
            }
            Err(_) => panic!("fresh data inside the window is offered"),
        }
        if SIT == LOST {
            b.may_loss_data(&(0..sendable));
        }
        if SIT == ACKED {
            b.on_data_acked(&(0..sendable));
        }
    }
    assert!(b.written() == t && b.sent() == if SIT == FRESH { 0 } else { sendable });
    (b, t, sendable)
}

fn any_sid() -> StreamId {
    let id: u64 = kani::any();
    kani::assume(id < (1u64 << 60));
    StreamId::new(
        if kani::any() { Role::Client } else { Role::Server },
        if kani::any() { Dir::Bi } else { Dir::Uni },
        id,
    )
}

fn data_len(data: &Vec<Bytes>) -> u64 {
    let mut n = 0u64;
    let mut i = 0;
    while i < 2 {
        if i < data.len() {
            n += data[i].len() as u64;
        }
        i += 1;
    }
    n
}

// ------------------------------------------------------------------------------------------------
// Sending state: which frames carry FIN

fn sending_pick<const SIT: u8, const T: u64, const WIN: u64>() {
    let (sndbuf, t, sendable) = sndbuf_in::<SIT, T, WIN>();
    let shutdown: bool = kani::any();
    let mut s = SendingSender {
        stream_id: any_sid(),
        sndbuf,
        flush_waker: None,
        shutdown_waker: if shutdown { Some(waker(2)) } else { None },
        broker: Broker,
        tx_wakers: tx_handle(),
        writable_waker: None,
        metrics: None,
    };
    assert!(s.total_size() == if shutdown { Some(t) } else { None });
    let allow: Option<usize> = kani::any();
    if let Some(a) = allow {
        kani::assume(a >= 1 && a as u64 <= VARINT_MAX);
    }
    let flow_limit: usize = kani::any();
    let sent_before = s.sndbuf.sent();

    let res = s.pick_up(|_| allow, flow_limit);

    let (mut saw_data_fin, mut saw_bare, mut saw_blocked, mut saw_waits) = (false, false, false, false);
    match res {
        Ok((range, fresh, data, eos)) => {
            assert!(range.end <= t && range.end <= sendable);
            assert!(data_len(&data) == range.end - range.start, "payload length == frame length");
            assert!(eos == (shutdown && range.end == t), "FIN iff the stream was shut down and the frame ends at the total size");
            if range.start == range.end {
                // bare FIN
                assert!(eos && !fresh && data.is_empty());
                assert!(sent_before == t && range.start == t, "a bare FIN is sent only after every byte was sent, at the total size");
                assert!(SIT != LOST || t == 0, "lost data is retransmitted before a bare FIN");
                assert!(allow.is_some(), "and only if the packet has room for it");
            } else {
                assert!(fresh == (SIT == FRESH));
                assert!(SIT == FRESH || SIT == LOST, "only never-sent or lost data is sent");
            }
            saw_data_fin = eos && range.start < range.end;
            saw_bare = range.start == range.end;
            core::mem::forget(data);
        }
        Err(signals) => {
            // nothing offered: lost / never-sent data inside the window is only withheld by the
            // congestion predicate (or, for fresh data, the connection flow limit) ...
            let data_due = sendable > 0 && (SIT == LOST || (SIT == FRESH && flow_limit > 0));
            assert!(!(data_due && allow.is_some()), "data that needs (re)sending is offered whenever the limits allow");
            // ... and then no FIN was due, or the packet had no room for it
            let fin_due = shutdown && sent_before == t && (SIT != LOST || t == 0);
            if fin_due {
                assert!(allow.is_none() && signals.contains(Signals::CONGESTION), "a due FIN is withheld only by the congestion / space predicate, and says so");
            }
            saw_blocked = fin_due;
            saw_waits = shutdown && sent_before < t;
        }
    }
    // witnesses (what this instance can exhibit)
    let data_fin_possible = (SIT == FRESH || SIT == LOST) && T > 0 && WIN >= T;
    let bare_possible = T == 0 || ((SIT == FLIGHT || SIT == ACKED) && WIN >= T);
    let waits_possible = T > 0 && (SIT == FRESH || WIN < T);
    kani::cover!(!data_fin_possible || saw_data_fin, "last data frame carries FIN");
    kani::cover!(!bare_possible || saw_bare, "bare FIN");
    kani::cover!(!bare_possible || saw_blocked, "FIN due but no room");
    kani::cover!(!waits_possible || saw_waits, "FIN has to wait (data unsent / beyond the peer's window)");
    core::mem::forget(s);
}

macro_rules! fin_harness {
    ($name:ident, $call:expr) => {
        #[kani::proof]
        #[kani::unwind(6)]
        #[kani::stub(std::sync::Mutex::lock, stub_mutex_lock)]
        #[kani::stub(qbase::net::tx::ArcSendWakers::wake_all_by, stub_wake_all_by)]
        #[kani::stub(alloc::fmt::format, stub_fmt)]
        #[kani::stub(core::slice::index::slice_index_fail, stub_slice_index_fail)]
        #[kani::stub(crate::send::sndbuf::BufMap::may_lost_from, crate::send::sndbuf::verif_c01_compose::ref_lost_from)]
        fn $name() {
            $call;
        }
    };
}


// ------------------------------------------------------------------------------------------------
// DataSent state: FIN lost -> offered again

fn any_fin_state() -> FinState {
    match kani::any::<u8>() % 3 {
        0 => FinState::Sent,
        1 => FinState::Lost,
        _ => FinState::Rcvd,
    }
}
fn fin_code(f: &FinState) -> u8 {
    match f {
        FinState::Sent => 0,
        FinState::Lost => 1,
        FinState::Rcvd => 2,
    }
}

fn data_sent_in<const SIT: u8, const T: u64>(flush: bool, shutdown: bool) -> (DataSentSender<Broker>, u64) {
    // DataSent is entered when a frame ending at the total size was emitted: everything was sent,
    // i.e. the window covers the total size
    let (sndbuf, t, sendable) = sndbuf_in::<SIT, T, 8>();
    assert!(sendable == t);
    let s = DataSentSender {
        stream_id: any_sid(),
        sndbuf,
        flush_waker: if flush { Some(waker(1)) } else { None },
        shutdown_waker: if shutdown { Some(waker(2)) } else { None },
        broker: Broker,
        tx_wakers: tx_handle(),
        fin_state: any_fin_state(),
    };
    (s, t)
}

fn data_sent_pick<const SIT: u8, const T: u64>() {
    let (mut s, t) = data_sent_in::<SIT, T>(false, true);
    let fin0 = fin_code(&s.fin_state);
    let allow: Option<usize> = kani::any();
    if let Some(a) = allow {
        kani::assume(a >= 1 && a as u64 <= VARINT_MAX);
    }
    let res = s.pick_up(|_| allow, kani::any());
    let fin1 = fin_code(&s.fin_state);
    // lost data goes first (subject to the congestion / space predicate); otherwise a FIN that was
    // reported lost is sent again by itself. OBSERVATION: that bare FIN is NOT subject to the
    // predicate (see c01_fin_resend_ignores_capacity).
    let expect_data = SIT == LOST && t > 0 && allow.is_some();
    let expect_bare = !expect_data && fin0 == 1;
    let (mut saw_bare, mut saw_data_fin) = (false, false);
    match res {
        Ok((range, fresh, data, eos)) => {
            assert!(!fresh, "after the FIN nothing is new");
            assert!(range.end <= t && data_len(&data) == range.end - range.start);
            assert!(eos == (range.end == t), "every frame that ends at the total size carries FIN");
            if range.start == range.end {
                assert!(expect_bare && fin1 == 0 && range.start == t, "a bare FIN is re-sent only because the FIN was reported lost; it is then in flight again");
            } else {
                assert!(expect_data && range.start == 0, "only lost data is retransmitted");
                assert!(fin1 == fin0);
            }
            saw_bare = range.start == range.end;
            saw_data_fin = eos && range.start < range.end;
            core::mem::forget(data);
        }
        Err(_) => {
            assert!(!expect_data && !expect_bare, "lost data and a lost FIN are offered by the next pick_up");
            assert!(fin1 == fin0);
        }
    }
    kani::cover!(saw_bare, "lost FIN offered again");
    kani::cover!(!(SIT == LOST && T > 0) || saw_data_fin, "retransmission carries FIN again");
    core::mem::forget(s);
}


// ------------------------------------------------------------------------------------------------
// DataSent state: ack / loss feedback, completion

fn data_sent_feedback<const SIT: u8, const T: u64>() {
    let flush: bool = kani::any();
    let shutdown: bool = kani::any();
    let (mut s, t) = data_sent_in::<SIT, T>(flush, shutdown);
    let fin0 = fin_code(&s.fin_state);
    let data_acked0 = s.sndbuf.is_all_rcvd();
    // (a DataSent stream that is already complete does not exist: Outgoing turns it into DataRcvd)
    kani::assume(!(data_acked0 && fin0 == 2));
    let sid = s.stream_id;
    // feedback for a frame that was emitted before: a range of sent bytes, with or without FIN
    // (FIN only on frames that end at the total size)
    let a: u64 = kani::any();
    let b: u64 = kani::any();
    kani::assume(a <= b && b <= t);
    let fin: bool = kani::any();
    kani::assume(!fin || b == t);
    kani::assume(a < b || fin); // (empty frames without FIN are never emitted)
    let mut frame = StreamFrame::new(sid, a, (b - a) as usize);
    frame.set_eos_flag(fin);
    let is_ack: bool = kani::any();

    // what Outgoing::on_data_acked / may_loss_data do with a DataSent stream (the state lives on
    // the stack here: behind Arc<Mutex<..>> CBMC walks every arm of the state machine, > 600 s):
    //   s.on_data_acked(frame); if s.is_all_rcvd() { state = DataRcvd; return true }
    let completed = if is_ack {
        s.on_data_acked(&frame);
        s.is_all_rcvd()
    } else {
        s.may_loss_data(&frame);
        assert!(!s.is_all_rcvd() || (data_acked0 && fin0 == 2), "a loss report completes nothing");
        false
    };

    let fin1 = fin_code(&s.fin_state);
    let expect = if is_ack { if fin { 2 } else { fin0 } } else if fin && fin0 != 2 { 1 } else { fin0 };
    assert!(fin1 == expect, "FIN acked -> final; FIN lost -> to be re-sent unless already acked; data-only feedback leaves it alone");
    if !completed {
        assert!(!(s.sndbuf.is_all_rcvd() && fin1 == 2), "not complete => something is outstanding");
        assert!(wakes(1) == 0 && wakes(2) == 0, "flush / shutdown are not released before everything incl. FIN is acknowledged");
        assert!(s.flush_waker.is_some() == flush && s.shutdown_waker.is_some() == shutdown);
        if !is_ack {
            assert!(unsafe { RAISED } == 1, "a loss report pokes the transport to retransmit");
        }
    } else {
        // every byte and the FIN are acknowledged now
        let data_done = data_acked0 || (a == 0 && b == t && SIT != ACKED) || t == 0;
        assert!(data_done, "complete => every byte acknowledged");
        assert!(fin || fin0 == 2, "complete => FIN acknowledged");
        assert!(wakes(1) == if flush { 1 } else { 0 } && wakes(2) == if shutdown { 1 } else { 0 }, "flush / shutdown tasks are released exactly once");
    }
    kani::cover!(completed, "last acknowledgement: DataRcvd");
    kani::cover!(!is_ack && fin && fin0 == 0, "FIN reported lost");
    kani::cover!(SIT == ACKED || T == 0 || (is_ack && fin && !completed), "FIN acked, data still outstanding");
    core::mem::forget(s);
}

fn poll_after<const SIT: u8, const T: u64>() {
    // DataSent: flush and shutdown park (they complete only through DataRcvd)
    let (mut s, _t) = data_sent_in::<SIT, T>(false, false);
    kani::assume(!(s.sndbuf.is_all_rcvd() && s.fin_state == FinState::Rcvd));
    let w1 = waker(1);
    let mut cx1 = Context::from_waker(&w1);
    assert!(s.poll_flush(&mut cx1) == Poll::Pending && s.flush_waker.is_some());
    let w2 = waker(2);
    let mut cx2 = Context::from_waker(&w2);
    assert!(s.poll_shutdown(&mut cx2) == Poll::Pending && s.shutdown_waker.is_some());
    kani::cover!(s.fin_state == FinState::Rcvd, "FIN acked, data outstanding");
    core::mem::forget(s);
}

// ------------------------------------------------------------------------------------------------
// flush / shutdown completion conditions in the Sending state

fn sending_flush<const SIT: u8, const T: u64, const WIN: u64>() {
    let (sndbuf, t, sendable) = sndbuf_in::<SIT, T, WIN>();
    let mut s = SendingSender {
        stream_id: any_sid(),
        sndbuf,
        flush_waker: None,
        shutdown_waker: None,
        broker: Broker,
        tx_wakers: tx_handle(),
        writable_waker: None,
        metrics: None,
    };
    let all_acked = SIT == ACKED && sendable == t || t == 0;
    let w1 = waker(1);
    let mut cx1 = Context::from_waker(&w1);
    let r = s.poll_flush(&mut cx1);
    assert!((r == Poll::Ready(())) == all_acked, "flush completes iff every written byte is acknowledged");
    assert!(s.flush_waker.is_some() == !all_acked, "otherwise the task is parked");
    if SIT == FLIGHT && sendable > 0 {
        // the acknowledgement of the outstanding frame releases the flush exactly when it was the last one
        let frame = StreamFrame::new(s.stream_id, 0, sendable as usize);
        s.on_data_acked(&frame);
        assert!(wakes(1) == if sendable == t { 1 } else { 0 }, "flush is released by the last acknowledgement, not before");
    }
    let w2 = waker(2);
    let mut cx2 = Context::from_waker(&w2);
    let raised = unsafe { RAISED };
    assert!(s.poll_shutdown(&mut cx2) == Poll::Pending, "shutdown never completes before the FIN is acknowledged");
    assert!(s.shutdown_waker.is_some() && s.total_size() == Some(t) && unsafe { RAISED } == raised + 1, "the total size is fixed, the transport is poked to send the FIN");
    // after shutdown no more data is accepted
    let w0 = waker(0);
    let mut cx0 = Context::from_waker(&w0);
    assert!(s.poll_ready(&mut cx0) == Poll::Ready(Err(StreamError::EosSent)));
    assert!(s.write(Bytes::from_static(&SEQ).slice(0..1)) == Err(StreamError::EosSent) && s.sndbuf.written() == t, "writing after shutdown is refused: the total size cannot change");
    kani::cover!(!(SIT == ACKED && WIN >= T && T > 0) || all_acked, "flush completes");
    kani::cover!(!(SIT == FLIGHT && WIN < T && WIN > 0) || (sendable > 0 && sendable < t), "acknowledged up to the window, more written");
    core::mem::forget(s);
}


// ------------------------------------------------------------------------------------------------
// Instances: (T, WIN) = (3, 8) window covers everything; (3, 2) written beyond the window; (0, 8) empty stream.

fin_harness!(c01_fin_sending_pick_fresh, { sending_pick::<FRESH, 3, 8>(); });
fin_harness!(c01_fin_sending_pick_fresh_win, { sending_pick::<FRESH, 3, 2>(); });
fin_harness!(c01_fin_sending_pick_empty, { sending_pick::<FRESH, 0, 8>(); });
fin_harness!(c01_fin_sending_pick_flight, { sending_pick::<FLIGHT, 3, 8>(); });
fin_harness!(c01_fin_sending_pick_flight_win, { sending_pick::<FLIGHT, 3, 2>(); });
fin_harness!(c01_fin_sending_pick_lost, { sending_pick::<LOST, 3, 8>(); });
fin_harness!(c01_fin_sending_pick_acked, { sending_pick::<ACKED, 3, 8>(); });
fin_harness!(c01_fin_sending_pick_acked_win, { sending_pick::<ACKED, 3, 2>(); });

fin_harness!(c01_fin_data_sent_pick_flight, { data_sent_pick::<FLIGHT, 3>(); });
fin_harness!(c01_fin_data_sent_pick_lost, { data_sent_pick::<LOST, 3>(); });
fin_harness!(c01_fin_data_sent_pick_acked, { data_sent_pick::<ACKED, 3>(); });
fin_harness!(c01_fin_data_sent_pick_empty, { data_sent_pick::<ACKED, 0>(); });

fin_harness!(c01_fin_data_sent_feedback_flight, { data_sent_feedback::<FLIGHT, 3>(); });
fin_harness!(c01_fin_data_sent_feedback_lost, { data_sent_feedback::<LOST, 3>(); });
fin_harness!(c01_fin_data_sent_feedback_acked, { data_sent_feedback::<ACKED, 3>(); });
fin_harness!(c01_fin_data_sent_feedback_empty, { data_sent_feedback::<ACKED, 0>(); });

fin_harness!(c01_fin_data_sent_polls, { poll_after::<FLIGHT, 3>(); });

fin_harness!(c01_fin_sending_flush_fresh, { sending_flush::<FRESH, 3, 8>(); });
fin_harness!(c01_fin_sending_flush_flight, { sending_flush::<FLIGHT, 3, 8>(); });
fin_harness!(c01_fin_sending_flush_flight_win, { sending_flush::<FLIGHT, 3, 2>(); });
fin_harness!(c01_fin_sending_flush_acked, { sending_flush::<ACKED, 3, 8>(); });
fin_harness!(c01_fin_sending_flush_acked_win, { sending_flush::<ACKED, 3, 2>(); });
fin_harness!(c01_fin_sending_flush_empty, { sending_flush::<FRESH, 0, 8>(); });


