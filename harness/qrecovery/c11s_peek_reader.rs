// Helper compiled inside qrecovery::recv::reader (overlay, cfg(kani) only). NO proof fn here.
// Property C11, stream-set level: the receiver behind the `Reader` handed to the application by
// open_bi / accept_* (`Reader`'s fields are private to this module). Read-only observer.
use super::*;

impl<TX> Reader<TX> {
    pub(crate) fn c11s_recver(&self) -> &ArcRecver<TX> {
        &self.inner
    }
}
