// Helper compiled inside qrecovery::recv::recver (overlay, cfg(kani) only). NO proof fn here.
// Property C11, stream-set level: the receive limit a stream was created with
// (`Recv::max_stream_data`, the value `Recv::recv` tests `offset + len` against — that test itself
// is checked by recver_flow.rs). Read-only observer for c11s_streams.rs.
use super::*;

impl<TX> ArcRecver<TX> {
    /// The advertised per-stream receive limit while the stream is in the Recv state.
    pub(crate) fn c11s_limit(&self) -> Option<u64> {
        match self.recver().as_ref() {
            Ok(Recver::Recv(r)) => Some(r.max_stream_data),
            _ => None,
        }
    }
}
