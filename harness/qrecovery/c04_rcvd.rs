// Kani harnesses compiled inside qrecovery::journal::rcvd (overlay, cfg(kani) only).  Property C04.
//
// (1) Growth of the receive window caused by ONE received packet number: decode_pn + on_rcvd_pn +
//     IndexDeque::insert are the REAL code; the allocation primitive `VecDeque::resize(pos, Empty)`
//     that IndexDeque::insert calls is replaced by a recorder (ghost cost = new_len - old_len, the
//     number of placeholder records the real arithmetic asks for).
// (2) Work of RcvdJournal::on_rcvd_ack for ONE ACK frame: the function walks every packet number
//     of every range of the frame (`iter().flat_map(|r| r.clone()).filter(contains)`), BEFORE and
//     independently of SentRotateGuard::update_largest (see the report: space/{initial,handshake,
//     data}.rs call `rcvd_journal.on_rcvd_ack(&f)` synchronously in the frame dispatcher, the
//     validation happens later in another task).
//
// std HashSet (rcvd.rs) and the VecDeque inside qbase's IndexDeque are replaced by verif_model;
// the explicitly std-qualified set inside on_rcvd_ack is redirected to the same model (props swap).
// (any_journal / any_wire_pn / clock stub copied from harness/qrecovery/journal_rcvd.rs, C10)
use super::*;

// ---- clock -------------------------------------------------------------------------------------
#[repr(C)]
struct RawTs {
    s: i64,
    n: u32,
}

fn mk_instant(secs: u64) -> Instant {
    let std_i: std::time::Instant = unsafe { core::mem::transmute(RawTs { s: secs as i64, n: 0 }) };
    Instant::from_std(std_i)
}

fn stub_now() -> Instant {
    mk_instant(1000)
}

// ---- ghost cost recorder for VecDeque::resize -------------------------------------------------------
static mut RESIZE_CALLS: u32 = 0;
static mut RESIZE_OLD: u64 = 0;
static mut RESIZE_NEW: u64 = 0;

/// Replaces verif_model::VecDeque::resize (== std VecDeque::resize in the real build): records the
/// requested length instead of materialising `new_len - len` placeholder records.
fn stub_resize<T: Clone>(this: &mut verif_model::VecDeque<T>, new_len: usize, _value: T) {
    unsafe {
        RESIZE_CALLS += 1;
        RESIZE_OLD = this.len() as u64;
        RESIZE_NEW = new_len as u64;
    }
}

fn requested_placeholders() -> u64 {
    unsafe {
        if RESIZE_CALLS == 0 {
            0
        } else {
            assert!(RESIZE_CALLS == 1 && RESIZE_NEW >= RESIZE_OLD, "insert only ever grows the window, once");
            RESIZE_NEW - RESIZE_OLD
        }
    }
}

// ---- pre-states --------------------------------------------------------------------------------
const M62: u64 = 1u64 << 62;

/// A journal whose window holds exactly N records (Empty / PacketReceived / AckConfirmed, symbolic)
/// at a symbolic offset. Representation invariant of real histories: the newest record is never
/// Empty (records are only appended by on_rcvd_pn, which stores PacketReceived last, and only
/// removed from the front). The window is assumed to end at least 2^32 below 2^62 (reaching the end
/// of the packet-number space takes 2^62 received packets; there on_rcvd_pn's "never exceed limit"
/// panic would be reachable, which is not the subject here).
fn any_journal<const N: usize>() -> (RcvdJournal, [bool; N]) {
    let mut j = RcvdJournal::default();
    let mut empty = [true; N];
    let mut i = 0;
    while i < N {
        let k: u8 = kani::any();
        let st = match k % 3 {
            0 => State::Empty,
            1 => State::PacketReceived(mk_instant(5), if kani::any() { Some(mk_instant(6)) } else { None }, mk_instant(9)),
            _ => State::AckConfirmed(kani::any(), mk_instant(5), mk_instant(9)),
        };
        empty[i] = k % 3 == 0;
        // pushed at the concrete offset 0 so that the shape of the model deque stays concrete
        j.queue.push_back(st).unwrap();
        i += 1;
    }
    let off: u64 = kani::any();
    kani::assume(off < M62 - (1u64 << 33));
    j.queue.reset_offset(off); // symbolic 62-bit window position
    if N > 0 {
        kani::assume(!empty[N - 1]);
    }
    j.max_ack_delay = None;
    (j, empty)
}

fn any_wire_pn() -> PacketNumber {
    let which: u8 = kani::any();
    let raw: u32 = kani::any();
    match which % 4 {
        0 => PacketNumber::U8(raw as u8),
        1 => PacketNumber::U16(raw as u16),
        2 => PacketNumber::U24(raw & 0x00ff_ffff), // what take_pn_len(3) produces
        _ => PacketNumber::U32(raw),
    }
}

// ---- (1) window growth -------------------------------------------------------------------------------
/// One accepted packet: decode_pn(enc) == Ok(pn), then on_rcvd_pn(pn). Asserts the exact number of
/// placeholder records requested and the bound.
fn window_growth<const N: usize>(max_pn_bytes: usize, bound: u64) {
    unsafe {
        RESIZE_CALLS = 0;
    }
    let (mut j, _empty) = any_journal::<N>();
    let off = j.queue.offset();
    let next = off + N as u64; // == queue.largest(): the next expected packet number
    let enc = any_wire_pn();
    kani::assume(enc.size() <= max_pn_bytes);
    let r = j.decode_pn(enc);
    kani::assume(r.is_ok()); // refused numbers (TooOld / Duplicate) are never registered
    let pn = r.unwrap();
    assert!(pn >= off);
    j.on_rcvd_pn(pn, kani::any(), Duration::from_millis(100));
    let grow = requested_placeholders();
    // exact: the records between the previous newest and the new packet number
    assert!(grow == if pn > next { pn - next } else { 0 }, "placeholders requested == pn - next expected");
    assert!(j.queue.offset() == off);
    kani::cover!(grow > 100, "large jump accepted");
    kani::cover!(N == 0 || pn < next, "fills a hole: nothing requested");
    kani::cover!(grow > bound / 2 + 1, "jump beyond half the bound: only possible while the expected number is below the encoding's window");
    assert!(grow <= bound, "C04: records allocated for ONE received packet number <= bound");
    core::mem::forget(j);
}

/// pending (suspected genuine defect #6): bound 2^16 records (the widest reordering window a
/// 2-byte packet number can express) is exceeded by 3- and 4-byte packet numbers.
#[kani::proof]
#[kani::unwind(6)]
#[kani::stub(tokio::time::Instant::now, stub_now)]
#[kani::stub(verif_model::VecDeque::resize, stub_resize)]
fn c04_p_rcvdwin_growth_any_pn() {
    window_growth::<2>(4, 1 << 16);
}

/// passing twin: 1- and 2-byte encodings jump by less than 2^16 (not 2^15: while the expected
/// number is below the window size, RFC 9000 A.3 / PacketNumber::decode cannot wrap downwards, so
/// the decoded number may be anything below 2^16).
#[kani::proof]
#[kani::unwind(6)]
#[kani::stub(tokio::time::Instant::now, stub_now)]
#[kani::stub(verif_model::VecDeque::resize, stub_resize)]
fn c04_rcvdwin_growth_short_pn() {
    window_growth::<2>(2, (1 << 16) - 1);
}

/// passing twin: the largest jump any encoding can cause is 2^32 - 1 (a constant, but 2^32 records
/// of size_of::<State>() bytes each; 2^31 once the window has moved past 2^32).
#[kani::proof]
#[kani::unwind(6)]
#[kani::stub(tokio::time::Instant::now, stub_now)]
#[kani::stub(verif_model::VecDeque::resize, stub_resize)]
fn c04_rcvdwin_growth_lt_2p32() {
    window_growth::<2>(4, (1 << 32) - 1);
}

#[kani::proof]
#[kani::unwind(6)]
#[kani::stub(tokio::time::Instant::now, stub_now)]
#[kani::stub(verif_model::VecDeque::resize, stub_resize)]
fn c04_rcvdwin_growth_lt_2p32_n0() {
    window_growth::<0>(4, (1 << 32) - 1);
}

/// Ties the recorder to the real container: with the REAL (model) resize and a jump of at most 2
/// the window afterwards holds pn - off + 1 records, the skipped ones are Empty.
#[kani::proof]
#[kani::unwind(6)]
#[kani::stub(tokio::time::Instant::now, stub_now)]
fn c04_rcvdwin_small_jump_real_resize() {
    let (mut j, empty) = any_journal::<1>();
    let off = j.queue.offset();
    let enc = any_wire_pn();
    let r = j.decode_pn(enc);
    kani::assume(r.is_ok());
    let pn = r.unwrap();
    kani::assume(pn <= off + 3);
    j.on_rcvd_pn(pn, true, Duration::from_millis(100));
    assert!(!empty[0] && pn > off);
    assert!(j.queue.len() as u64 == pn - off + 1);
    assert!(matches!(j.queue.get(pn), Some(State::PacketReceived(..))));
    let x: u64 = kani::any();
    kani::assume(x > off && x < pn);
    assert!(matches!(j.queue.get(x), Some(State::Empty)), "skipped numbers are placeholders");
    kani::cover!(pn == off + 3, "two placeholders materialised");
    core::mem::forget(j);
}

// ---- (2) work of on_rcvd_ack ---------------------------------------------------------------------------
static mut CONTAINS_CALLS: u64 = 0;

/// Replaces verif_model::HashSet::contains: same result, counts the calls.
fn stub_contains<T: PartialEq>(this: &verif_model::HashSet<T>, v: &T) -> bool {
    unsafe {
        CONTAINS_CALLS += 1;
    }
    let mut found = false;
    for x in this.iter() {
        if x == v {
            found = true;
        }
    }
    found
}

fn ack_no_ranges(largest: u64, first: u64) -> AckFrame {
    AckFrame::new(VarInt::from_u64(largest).unwrap(), VarInt::from_u32(0), VarInt::from_u64(first).unwrap(), Vec::new(), None)
}

/// Tie: on a journal with an empty window and ONE remembered ACK-carrying packet number, the real
/// on_rcvd_ack performs exactly (numbers enumerated by AckFrame::iter) + 1 set lookups: one per
/// acknowledged packet number (the filter) and one for the retain over the single remembered
/// number. Frames with <= 2 acknowledged numbers (loop unwinding).
#[kani::proof]
#[kani::unwind(6)]
#[kani::stub(tokio::time::Instant::now, stub_now)]
#[kani::stub(verif_model::HashSet::contains, stub_contains)]
fn c04_rcvd_on_ack_work_is_range_total() {
    unsafe {
        CONTAINS_CALLS = 0;
    }
    let mut j = RcvdJournal::default();
    let carrier: u64 = kani::any();
    kani::assume(carrier < M62);
    j.packet_include_ack.insert(carrier);
    let largest: u64 = kani::any();
    let first: u64 = kani::any();
    kani::assume(largest < M62 && first <= largest && first <= 1);
    let f = ack_no_ranges(largest, first);
    let mut total = 0u64;
    for r in f.iter() {
        total += *r.end() - *r.start() + 1;
    }
    assert!(total == first + 1);
    j.on_rcvd_ack(&f);
    assert!(unsafe { CONTAINS_CALLS } == total + 1, "one lookup per acknowledged packet number (+1 for retain)");
    let acked = carrier <= largest && carrier >= largest - first;
    assert!(j.packet_include_ack.len() == if acked { 0 } else { 1 }, "the carrier is forgotten iff it was acknowledged");
    kani::cover!(acked && first == 1);
    kani::cover!(!acked && first == 1);
    core::mem::forget(j);
}

/// pending (genuine defect found while building C04, see report): the work of on_rcvd_ack for one
/// WELL-FORMED frame without additional ranges -- `total`, tied to the real loop by the harness
/// above -- is not bounded by anything the endpoint holds: Largest Acknowledged is not compared
/// with the sent journal before (or by) on_rcvd_ack. Bound asserted: 2^16 lookups per frame.
#[kani::proof]
#[kani::unwind(6)]
fn c04_p_rcvd_on_ack_work_bounded() {
    let largest: u64 = kani::any();
    let first: u64 = kani::any();
    kani::assume(largest < M62 && first <= largest);
    let f = ack_no_ranges(largest, first);
    let mut total = 0u64;
    let mut n = 0;
    for r in f.iter() {
        total += *r.end() - *r.start() + 1;
        n += 1;
    }
    assert!(n == 1);
    kani::cover!(total == 1);
    assert!(total <= (1 << 16), "C04: set lookups performed by on_rcvd_ack for one ACK frame <= 2^16");
}

/// passing twin: frames that acknowledge at most 2^16 numbers (what a peer that respects a sane
/// window sends).
#[kani::proof]
#[kani::unwind(6)]
fn c04_rcvd_on_ack_work_small_frames() {
    let largest: u64 = kani::any();
    let first: u64 = kani::any();
    kani::assume(largest < M62 && first <= largest && first < (1 << 16));
    let f = ack_no_ranges(largest, first);
    let mut total = 0u64;
    for r in f.iter() {
        total += *r.end() - *r.start() + 1;
    }
    assert!(total == first + 1 && total <= (1 << 16));
    kani::cover!(total == (1 << 16));
}
