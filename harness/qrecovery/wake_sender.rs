// C16 — the stream writer's wakers in the `Ready` state of the sender state machine
// (qrecovery/src/send/sender.rs): waiters = ReadySender::poll_ready (writable_waker) and
// poll_flush (flush_waker); notifiers = update_window (MAX_STREAM_DATA), wake_all (STOP_SENDING /
// reset / connection error). `SendingSender` has byte-identical poll_ready / update_window /
// poll_flush / wake_all bodies. Compiled inside qrecovery::send::sender (overlay, cfg(kani) only).
//
// Every method of Outgoing/Writer holds the `Mutex<Result<Sender, Error>>` for its whole body, so
// the inner `&mut ReadySender` methods are the atomic steps; they run here on a stack value.
//
// Inductive formulation (schedules of ANY length). Ghosts: `w_asleep` / `f_asleep` = "the task's
// last poll_ready / poll_flush returned Pending and its waker has not been invoked since".
//   INV_w:  w_asleep  =>  writable_waker is the task's  &&  !sndbuf.has_remaining_mut()
//   INV_f:  f_asleep  =>  flush_waker is the task's     &&  !sndbuf.is_all_rcvd()
// Pre-state: SendBuf::with_capacity(cap) (cap symbolic, full width) with 0 or 1 written chunk of
// 1..=8 bytes (written may exceed the window: 0-RTT), built through SendBuf's own API.
use core::task::{Context, Poll};

use qbase::{role::Role, sid::Dir};

use super::*;

include!("../qbase/wake_common.rs");
use vwk::{waker, wakes};

static SEQ: [u8; 8] = [0, 1, 2, 3, 4, 5, 6, 7];

#[derive(Clone, Debug)]
struct Broker;
impl SendFrame<ResetStreamFrame> for Broker {
    fn send_frame<I: IntoIterator<Item = ResetStreamFrame>>(&self, iter: I) {
        for _f in iter {}
    }
}

static mut RAISED: u32 = 0;
/// `ArcSendWakers::wake_all_by` walks a BTreeMap<Pathway, _> (intractable even when empty).
fn stub_wake_all_by(_t: &ArcSendWakers, _s: Signals) {
    unsafe { RAISED += 1 };
}

struct Pre {
    s: ReadySender<Broker>,
    w_asleep: bool,
    f_asleep: bool,
}

fn is_task(w: &Option<Waker>, t: usize) -> bool {
    match w.as_ref() {
        Some(w) => w.will_wake(&waker(t)),
        None => false,
    }
}

fn inv(p: &Pre) -> bool {
    (!p.w_asleep || (is_task(&p.s.writable_waker, 0) && !p.s.sndbuf.has_remaining_mut()))
        && (!p.f_asleep || (is_task(&p.s.flush_waker, 1) && !p.s.sndbuf.is_all_rcvd()))
}

fn any_pre() -> Pre {
    let cap: u64 = kani::any();
    kani::assume(cap <= VARINT_MAX);
    let mut s = ReadySender::new(StreamId::new(Role::Client, Dir::Bi, 0), cap, Broker, ArcSendWakers::new(), None);
    let n: usize = kani::any();
    kani::assume(n <= 8);
    if n > 0 {
        s.sndbuf.write(Bytes::from_static(&SEQ).slice(0..n));
    }
    let w_asleep: bool = kani::any();
    let f_asleep: bool = kani::any();
    let w_stale: bool = kani::any();
    let f_stale: bool = kani::any();
    if w_asleep || w_stale {
        s.writable_waker = Some(waker(0));
    }
    if f_asleep || f_stale {
        s.flush_waker = Some(waker(1));
    }
    let p = Pre { s, w_asleep, f_asleep };
    kani::assume(inv(&p));
    p
}

/// waiter step: poll_ready (task 0).
#[kani::proof]
#[kani::unwind(6)]
#[kani::stub(ArcSendWakers::wake_all_by, stub_wake_all_by)]
fn c16_sender_step_poll_ready() {
    let mut p = any_pre();
    let room = p.s.sndbuf.has_remaining_mut();
    let before = [wakes(0), wakes(1)];
    let w = waker(0);
    let mut cx = Context::from_waker(&w);
    match p.s.poll_ready(&mut cx) {
        Poll::Ready(Ok(())) => {
            assert!(room, "Ready only with window left");
            p.w_asleep = false;
        }
        Poll::Pending => {
            assert!(!room, "Pending only when the window is exhausted");
            p.w_asleep = true;
        }
        Poll::Ready(Err(_)) => assert!(false, "no shutdown was requested"),
    }
    assert!(wakes(0) == before[0] && wakes(1) == before[1], "polling wakes nobody");
    assert!(inv(&p), "a Pending poll leaves the writer registered; the flusher stays registered");
    kani::cover!(p.w_asleep && p.f_asleep, "writer and flusher both asleep");
    kani::cover!(!p.w_asleep, "writable");
    core::mem::forget(p);
}

/// waiter step: poll_flush (task 1).
#[kani::proof]
#[kani::unwind(6)]
#[kani::stub(ArcSendWakers::wake_all_by, stub_wake_all_by)]
fn c16_sender_step_poll_flush() {
    let mut p = any_pre();
    let flushed = p.s.sndbuf.is_all_rcvd();
    let before = [wakes(0), wakes(1)];
    let w = waker(1);
    let mut cx = Context::from_waker(&w);
    match p.s.poll_flush(&mut cx) {
        Poll::Ready(()) => {
            assert!(flushed, "Ready only when every written byte was acknowledged");
            p.f_asleep = false;
        }
        Poll::Pending => {
            assert!(!flushed);
            p.f_asleep = true;
        }
    }
    assert!(wakes(0) == before[0] && wakes(1) == before[1], "polling wakes nobody");
    assert!(inv(&p));
    kani::cover!(p.f_asleep, "flusher parked");
    kani::cover!(!p.f_asleep, "nothing to flush");
    core::mem::forget(p);
}

/// notifier step: MAX_STREAM_DATA (update_window) with any value.
#[kani::proof]
#[kani::unwind(6)]
#[kani::stub(ArcSendWakers::wake_all_by, stub_wake_all_by)]
fn c16_sender_step_update_window() {
    let mut p = any_pre();
    let m: u64 = kani::any();
    kani::assume(m <= VARINT_MAX);
    let old = p.s.sndbuf.max_data();
    let written = p.s.sndbuf.written();
    let w_registered = p.s.writable_waker.is_some();
    let before = [wakes(0), wakes(1)];
    p.s.update_window(m);
    let new = p.s.sndbuf.max_data();
    assert!(new == if m > old { m } else { old }, "the window never shrinks");
    let room = new > written;
    assert!(p.s.sndbuf.has_remaining_mut() == room);
    let woken = wakes(0) != before[0];
    assert!(woken == (w_registered && m > old && room), "the registered writer is woken iff the window grew and there is room now");
    if p.w_asleep && room {
        assert!(woken, "no lost wake-up: window opened while the writer sleeps");
    }
    assert!(wakes(0) <= before[0] + 1 && wakes(1) == before[1], "flow-control credit does not wake the flusher");
    if woken {
        p.w_asleep = false;
    }
    assert!(inv(&p), "INV re-established (writer still registered if still no room)");
    kani::cover!(woken, "sleeping writer woken by MAX_STREAM_DATA");
    kani::cover!(p.w_asleep && m > old, "window grew but still no room: writer stays asleep, still registered");
    kani::cover!(p.w_asleep && m <= old, "stale MAX_STREAM_DATA ignored");
    core::mem::forget(p);
}

/// closing step: wake_all (STOP_SENDING / reset / connection error) wakes every parked task.
#[kani::proof]
#[kani::unwind(6)]
#[kani::stub(ArcSendWakers::wake_all_by, stub_wake_all_by)]
fn c16_sender_step_wake_all() {
    let mut p = any_pre();
    let parked_shutdown: bool = kani::any();
    if parked_shutdown {
        let w = waker(2);
        let mut cx = Context::from_waker(&w);
        assert!(p.s.poll_shutdown(&mut cx).is_pending());
    }
    let reg = [p.s.writable_waker.is_some(), p.s.flush_waker.is_some(), parked_shutdown];
    let before = [wakes(0), wakes(1), wakes(2)];
    p.s.wake_all();
    let mut t = 0;
    while t < 3 {
        assert!(wakes(t) == before[t] + if reg[t] { 1 } else { 0 }, "closing wakes every registered task exactly once");
        t += 1;
    }
    if p.w_asleep {
        assert!(wakes(0) == before[0] + 1);
    }
    if p.f_asleep {
        assert!(wakes(1) == before[1] + 1);
    }
    assert!(p.s.writable_waker.is_none() && p.s.flush_waker.is_none() && p.s.shutdown_waker.is_none());
    kani::cover!(p.w_asleep && p.f_asleep && parked_shutdown, "three sleepers woken");
    core::mem::forget(p);
}
