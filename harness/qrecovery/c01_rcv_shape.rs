// Compiled inside qrecovery::recv::rcvbuf (overlay, cfg(kani) only). Property C01: see c01_glue.rs.
use super::*;
use crate::verif_c01_glue::RcvShape;

impl RcvShape for RecvBuf {
    fn c01_segments(&self) -> usize {
        self.segments.len()
    }

    fn c01_shape<const K: usize>(&mut self) {
        kani::assume(self.segments.len() == K);
        let mut segs: VecDeque<Segment> = VecDeque::new();
        let mut i = 0;
        while i < K {
            let s = &self.segments[i];
            segs.push_back(Segment::new_with_data(s.offset, s.data.clone()));
            i += 1;
        }
        core::mem::forget(core::mem::replace(&mut self.segments, segs));
    }
}
