// Kani harnesses compiled inside qrecovery::recv::recver (overlay injection, cfg(kani) only).
// Property C11, per-stream clause on the receiving side: data beyond the advertised
// MAX_STREAM_DATA ends the connection with FLOW_CONTROL_ERROR; the advertised per-stream limit
// never decreases. One operation from an arbitrary state of `Recv` whose RecvBuf holds 0 or 1
// segment inside an 8-byte window (identity content); limits and the error-path offsets full-width.
use core::task::{RawWaker, RawWakerVTable};

use qbase::{error::ErrorFrameType, role::Role, sid::Dir};

use super::*;

const W: u64 = 8;
static SEQ: [u8; 8] = [0, 1, 2, 3, 4, 5, 6, 7];

fn content(from: u64, to: u64) -> Bytes {
    Bytes::from_static(&SEQ).slice(from as usize..to as usize)
}

static mut MSD_N: u32 = 0;
static mut MSD_LAST: u64 = 0;
static mut MSD_SID: u64 = 0;
static mut STOP_N: u32 = 0;
static mut WAKED: u32 = 0;
static mut CLONED: u32 = 0;

#[derive(Clone, Debug)]
struct Sink;

impl SendFrame<MaxStreamDataFrame> for Sink {
    fn send_frame<I: IntoIterator<Item = MaxStreamDataFrame>>(&self, iter: I) {
        for f in iter {
            unsafe {
                MSD_N += 1;
                MSD_LAST = f.max_stream_data();
                MSD_SID = f.stream_id().into();
            }
        }
    }
}

impl SendFrame<StopSendingFrame> for Sink {
    fn send_frame<I: IntoIterator<Item = StopSendingFrame>>(&self, iter: I) {
        for _f in iter {
            unsafe { STOP_N += 1 };
        }
    }
}

unsafe fn w_clone(p: *const ()) -> RawWaker {
    unsafe { CLONED += 1 };
    RawWaker::new(p, &VTABLE)
}
unsafe fn w_wake(_p: *const ()) {
    unsafe { WAKED += 1 };
}
unsafe fn w_drop(_p: *const ()) {}
static VTABLE: RawWakerVTable = RawWakerVTable::new(w_clone, w_wake, w_wake, w_drop);

fn new_waker() -> Waker {
    unsafe { Waker::from_raw(RawWaker::new(core::ptr::null(), &VTABLE)) }
}

fn stub_fmt(_args: core::fmt::Arguments<'_>) -> String {
    String::new()
}

fn any_sid() -> StreamId {
    let id: u64 = kani::any();
    kani::assume(id < (1u64 << 60));
    StreamId::new(
        if kani::any() { Role::Client } else { Role::Server },
        if kani::any() { Dir::Bi } else { Dir::Uni },
        id,
    )
}

/// Arbitrary valid `Recv`: RecvBuf with SEGS (0 or 1) stored segment [a, b) inside the window
/// (built through RecvBuf's own API), `rcvbuf.largest_offset <= largest <= max_stream_data <=
/// 2^62-1` (largest may exceed the buffered data: empty frames advance it), optional parked reader.
fn any_recv<const SEGS: usize>() -> (Recv<Sink>, u64) {
    let mut rcvbuf = rcvbuf::RecvBuf::default();
    if SEGS == 1 {
        let a: u64 = kani::any();
        let b: u64 = kani::any();
        kani::assume(a < b && b <= W);
        rcvbuf.recv(a, content(a, b));
    }
    let buffered = rcvbuf.largest_offset();
    let largest: u64 = kani::any();
    let max_stream_data: u64 = kani::any();
    kani::assume(buffered <= largest && largest <= max_stream_data && max_stream_data <= VARINT_MAX);
    let r = Recv {
        stream_id: any_sid(),
        rcvbuf,
        read_waker: if kani::any() { Some(new_waker()) } else { None },
        stop_state: None,
        broker: Sink,
        largest,
        max_stream_data,
    };
    (r, buffered)
}

/// Non-FIN STREAM frame inside the window, limit anywhere:
/// Err(FlowControl, this frame's type) iff offset+len > max_stream_data, and then nothing changed;
/// otherwise Ok(fresh) with fresh == growth of the buffered high-water mark (what the connection
/// controller is charged), `largest` == max(old, offset+len), the advertised limit untouched,
/// a parked reader woken iff data became readable.
fn recv_step<const SEGS: usize>() {
    let (mut r, buffered) = any_recv::<SEGS>();
    let (largest, limit) = (r.largest, r.max_stream_data);
    let had_waker = r.read_waker.is_some();
    let off: u64 = kani::any();
    let len: u64 = kani::any();
    kani::assume(off <= W && len <= W - off);
    let frame = StreamFrame::new(r.stream_id, off, len as usize);
    let res = r.recv(frame, content(off, off + len));
    let end = off + len;
    assert!(r.max_stream_data == limit, "receiving never changes the advertised limit");
    assert!(unsafe { MSD_N } == 0);
    match res {
        Err(e) => {
            assert!(end > limit, "rejected only beyond the advertised stream limit");
            assert!(e.kind() == ErrorKind::FlowControl, "FLOW_CONTROL_ERROR");
            assert!(e.frame_type() == ErrorFrameType::V1(frame.frame_type()));
            assert!(r.largest == largest && r.rcvbuf.largest_offset() == buffered, "a rejected frame stores nothing");
            assert!(unsafe { WAKED } == 0);
            kani::cover!(end == limit + 1, "one byte beyond the limit");
            core::mem::forget(e);
        }
        Ok(fresh) => {
            assert!(end <= limit, "accepted only within the advertised stream limit");
            let new_buffered = r.rcvbuf.largest_offset();
            assert!(new_buffered == if len > 0 && end > buffered { end } else { buffered });
            assert!(fresh as u64 == new_buffered - buffered, "fresh bytes == growth of the stream's high-water mark");
            assert!(r.largest == if end > largest { end } else { largest });
            assert!(r.largest <= r.max_stream_data);
            let readable = r.rcvbuf.is_readable();
            assert!(unsafe { WAKED } == if readable && had_waker { 1 } else { 0 });
            assert!(r.read_waker.is_some() == (had_waker && !readable));
            kani::cover!(end == limit && len > 0, "exactly at the limit is accepted");
            kani::cover!(fresh > 0 && readable && had_waker, "reader woken by new data");
            kani::cover!(SEGS == 0 || (len > 0 && fresh == 0), "duplicate data is not charged again");
        }
    }
    core::mem::forget(r);
}

#[kani::proof]
#[kani::unwind(6)]
#[kani::stub(std::fmt::format, stub_fmt)]
fn c11_stream_recv_step_s0() {
    recv_step::<0>();
}

#[kani::proof]
#[kani::unwind(6)]
#[kani::stub(std::fmt::format, stub_fmt)]
fn c11_stream_recv_step_s1() {
    recv_step::<1>();
}

/// Full-width rejection: any offset/length the STREAM parser can produce (offset+len <= 2^62-1,
/// len <= 8 here because the body is real bytes) beyond any limit is answered with
/// FLOW_CONTROL_ERROR and changes nothing.
#[kani::proof]
#[kani::unwind(6)]
#[kani::stub(std::fmt::format, stub_fmt)]
fn c11_stream_recv_reject_full_width() {
    let (mut r, buffered) = any_recv::<0>();
    let (largest, limit) = (r.largest, r.max_stream_data);
    let off: u64 = kani::any();
    let len: u64 = kani::any();
    kani::assume(len <= W && off <= VARINT_MAX - len);
    kani::assume(off + len > limit);
    let frame = StreamFrame::new(r.stream_id, off, len as usize);
    let res = r.recv(frame, content(0, len));
    match res {
        Err(e) => {
            assert!(e.kind() == ErrorKind::FlowControl);
            assert!(e.frame_type() == ErrorFrameType::V1(frame.frame_type()));
            core::mem::forget(e);
        }
        Ok(_) => panic!("data beyond the advertised stream limit was accepted"),
    }
    assert!(r.largest == largest && r.max_stream_data == limit && r.rcvbuf.largest_offset() == buffered);
    kani::cover!(off > (1u64 << 61) && limit > (1u64 << 60), "full-width values");
    kani::cover!(len == 0 && off == limit + 1, "empty frame beyond the limit");
    core::mem::forget(r);
}

/// A recording BufMut with fixed capacity (the reader's buffer).
struct Dst {
    buf: [u8; 8],
    pos: usize,
    cap: usize,
}

unsafe impl BufMut for Dst {
    fn remaining_mut(&self) -> usize {
        self.cap - self.pos
    }
    unsafe fn advance_mut(&mut self, cnt: usize) {
        self.pos += cnt;
    }
    fn chunk_mut(&mut self) -> &mut bytes::buf::UninitSlice {
        bytes::buf::UninitSlice::new(&mut self.buf[self.pos..self.cap])
    }
}

/// Application read (`poll_read`) with 8 contiguous bytes buffered and a 4-byte destination
/// (concrete shape; the limit and `largest` are symbolic and full-width): the advertised
/// per-stream limit never decreases; a MAX_STREAM_DATA frame is emitted iff the limit grew, for
/// this stream, carrying exactly the new limit min(nread + 2_000_000, 2^62-1).
#[kani::proof]
#[kani::unwind(6)]
fn c11_stream_read_window_step() {
    let (mut r, _buffered) = any_recv::<0>();
    kani::assume(r.max_stream_data >= W);
    r.rcvbuf.recv(0, content(0, W));
    if r.largest < W {
        r.largest = W;
    }
    let limit = r.max_stream_data;
    let sid = r.stream_id;
    let mut dst = Dst { buf: [0xff; 8], pos: 0, cap: 4 };
    let waker = new_waker();
    let mut cx = Context::from_waker(&waker);
    let p = r.poll_read(&mut cx, &mut dst);
    assert!(p.is_ready() && dst.pos == 4);
    let nread = r.rcvbuf.nread();
    assert!(nread == 4);
    assert!(r.max_stream_data >= limit, "advertised stream limit never decreases");
    let target = if nread + 2_000_000 < VARINT_MAX { nread + 2_000_000 } else { VARINT_MAX };
    let grow = nread + 1_000_000 > limit && target > limit;
    assert!(r.max_stream_data == if grow { target } else { limit });
    assert!(unsafe { MSD_N } == if grow { 1 } else { 0 }, "MAX_STREAM_DATA emitted iff the limit grew");
    if grow {
        assert!(unsafe { MSD_LAST } == r.max_stream_data && unsafe { MSD_SID } == u64::from(sid));
    }
    kani::cover!(grow, "window extended after a read");
    kani::cover!(!grow && limit > 3_000_000, "still far from the limit: nothing advertised");
    kani::cover!(limit == nread + 1_000_000, "exactly at the threshold: not yet");
    core::mem::forget(r);
    core::mem::forget(waker);
}

/// `poll_read` without contiguous data: the reader is parked, nothing is read or advertised.
#[kani::proof]
#[kani::unwind(6)]
fn c11_stream_read_parked() {
    let (mut r, _buffered) = any_recv::<0>();
    let limit = r.max_stream_data;
    let mut dst = Dst { buf: [0xff; 8], pos: 0, cap: 4 };
    let waker = new_waker();
    let mut cx = Context::from_waker(&waker);
    let p = r.poll_read(&mut cx, &mut dst);
    assert!(p.is_pending() && dst.pos == 0 && r.max_stream_data == limit && unsafe { MSD_N } == 0);
    assert!(r.read_waker.is_some());
    kani::cover!(limit == 0, "parked on a zero window");
    core::mem::forget(r);
    core::mem::forget(waker);
}

/// STREAM frame carrying FIN arriving at a stream in the Recv state (nothing buffered yet).
/// `Incoming::recv_data` handles it as `Recv::determin_size(&frame)` followed by
/// `SizeKnown::recv(frame, body)` and `is_all_rcvd()`; the harness performs exactly that
/// composition on the real functions (going through the Arc<Mutex<Result<Recver>>> wrapper itself
/// did not finish within 300 s even with a concrete frame: the state replacement drops the old
/// `Recv`). `exclude_beyond_limit` assumes the new suspected defect away.
fn fin_step(exclude_beyond_limit: bool) {
    let (mut r, buffered) = any_recv::<0>();
    let limit = r.max_stream_data;
    let off: u64 = kani::any();
    let len: u64 = kani::any();
    kani::assume(off <= W && len <= W - off);
    let end = off + len;
    if exclude_beyond_limit {
        kani::assume(end <= limit);
    }
    let mut frame = StreamFrame::new(r.stream_id, off, len as usize);
    frame.set_eos_flag(true);
    // ---- Incoming::recv_data, arm `Recver::Recv(r) if stream_frame.is_fin()` ----
    let res = match r.determin_size(&frame) {
        Ok(mut size_known) => {
            let res = size_known.recv(frame, content(off, end)).map(|fresh| (size_known.is_all_rcvd(), fresh));
            core::mem::forget(size_known);
            res
        }
        Err(e) => Err(e),
    };
    // -----------------------------------------------------------------------------
    match res {
        Err(e) => {
            // nothing is buffered, so no final-size conflict is possible: the only legitimate
            // error is the stream flow-control one
            assert!(end > limit, "a FIN frame within the limit is accepted");
            assert!(e.kind() == ErrorKind::FlowControl);
            core::mem::forget(e);
        }
        Ok((all_rcvd, fresh)) => {
            assert!(end <= limit, "STREAM data beyond the advertised stream limit must be a FLOW_CONTROL_ERROR, FIN or not");
            assert!(fresh as u64 == if len > 0 { end - buffered } else { 0 });
            assert!(all_rcvd == (off == 0), "all data received iff the FIN frame completes the stream");
            kani::cover!(limit == end && len > 0, "FIN frame ending exactly at the limit");
            kani::cover!(all_rcvd && len > 0, "whole stream in one FIN frame");
            kani::cover!(!all_rcvd, "FIN received, earlier data still missing");
        }
    }
    core::mem::forget(r);
}



/// The same step without any exclusion. On the pinned tree this failed (genuine defect: neither
/// `Recv::determin_size` nor `SizeKnown::recv` compared against `max_stream_data`, so the per-stream
/// limit was not enforced for the frame that carries FIN nor for any later frame of that stream);
/// repaired in /repo by "fix: enforce the stream flow-control limit on the FIN path". Kept in the
/// quick tier so that a regression is reported.
#[kani::proof]
#[kani::unwind(6)]
#[kani::stub(std::fmt::format, stub_fmt)]
fn c11_stream_recv_fin_any_end() {
    fin_step(false);
}
