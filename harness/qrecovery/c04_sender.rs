// Kani harness compiled inside qrecovery::send::sender (overlay, cfg(kani) only).  Property C04.
// MAX_STREAM_DATA with ANY 62-bit value delivered to the real ArcSender::update_window (what
// DataStreams::recv_stream_control calls through Outgoing::update_window) on a stream in the Ready
// state with an arbitrary current window: `assert!(max_stream_data <= VARINT_MAX)` is not reached
// (the field is a VarInt), no panic, the window never shrinks.
// (sndbuf.rs keeps std VecDeque: with nothing written no element of it is touched)
use super::*;

const M62: u64 = 1u64 << 62;

#[derive(Clone, Debug)]
struct Sink;

impl SendFrame<ResetStreamFrame> for Sink {
    fn send_frame<I: IntoIterator<Item = ResetStreamFrame>>(&self, iter: I) {
        for _f in iter {
            panic!("MAX_STREAM_DATA never makes the sender emit a frame");
        }
    }
}

static mut WAKES: u32 = 0;

fn stub_wake_all_by(_w: &ArcSendWakers, _signals: Signals) {
    unsafe { WAKES += 1 };
}

fn stub_lock<T: ?Sized>(m: &Mutex<T>) -> std::sync::LockResult<MutexGuard<'_, T>> {
    match m.try_lock() {
        Ok(g) => Ok(g),
        Err(_) => panic!("mutex already held in a single-threaded harness: self-deadlock"),
    }
}

#[kani::proof]
#[kani::unwind(6)]
#[kani::stub(qbase::net::tx::ArcSendWakers::wake_all_by, stub_wake_all_by)]
#[kani::stub(std::sync::Mutex::lock, stub_lock)]
fn c04_sender_max_stream_data_any_value() {
    let window: u64 = kani::any(); // current limit (initial_max_stream_data_* or an earlier frame)
    kani::assume(window < M62);
    let sid = StreamId::new(qbase::role::Role::Client, qbase::sid::Dir::Bi, 0);
    let s = ArcSender::new(sid, window, Sink, ArcSendWakers::default(), None);
    let v: u64 = kani::any();
    kani::assume(v < M62); // MaxStreamDataFrame::max_stream_data() is a VarInt
    s.update_window(v);
    let g = s.sender();
    match g.as_ref() {
        Ok(Sender::Ready(r)) => {
            assert!(r.sndbuf.max_data() == if v > window { v } else { window }, "window = max(old, new)");
            assert!(r.sndbuf.max_data() >= window, "C04: MAX_STREAM_DATA never decreases the limit");
            assert!(r.sndbuf.written() == 0 && r.sndbuf.is_empty());
            assert!(r.sndbuf.has_remaining_mut() == (r.sndbuf.max_data() > 0));
        }
        _ => panic!("state unchanged: Ready"),
    }
    assert!(unsafe { WAKES } == 0, "nothing was written beyond the old limit, so no packet assembler is woken");
    kani::cover!(v > window && window == 0, "first credit");
    kani::cover!(v < window, "stale MAX_STREAM_DATA ignored");
    kani::cover!(v == M62 - 1, "largest value");
    drop(g);
    core::mem::forget(s);
}
