// Kani harnesses compiled inside qrecovery::send::sndbuf (overlay, cfg(kani) only).
// Property C09, part 2: `BufMap::may_loss` (loss reports), pointwise colour oracle as in
// sndbuf_map.rs.
//
// `may_loss` delegates to the RECURSIVE helper `may_lost_from` (one recursion level per acked
// hole inside the lost range; the recursive call sits inside a loop). With a symbolic start index
// CBMC has to expand unwind^depth call sites, so `may_loss` as a whole does not finish even at
// one boundary. The check is therefore modular:
//
//  A. `c09_lost_from_n*` (lemma F): the real recursive `may_lost_from(I, end)`, called directly
//     with every CONCRETE start index I <= N (then all loop indices are concrete and the recursion
//     tree has 2^(N-I) nodes), from any state satisfying the helper's precondition P:
//       - the boundaries in front of I are untouched, the size is unchanged,
//       - every Flighting/Lost byte in [offset(I), end) becomes Lost, every other byte keeps its
//         colour, J holds behind I.
//  B. `c09_loss_step_n*`: the real `may_loss` with the helper replaced (kani::stub) by an observer
//     that asserts P at the call site and records the arguments, but does nothing. Checked: the
//     helper is called at most once and with the expected arguments; everything `may_loss` does
//     itself (in front of the acked boundary where it hands over to the helper) meets the loss
//     specification and J; the boundaries from that acked boundary on are left exactly as they
//     were. Composition (the one step not machine-checked at 3 boundaries): after the call
//     `may_loss` only runs get_mut/insert/drain at indices in front of that acked boundary
//     (B shows it never changes what is behind), and the helper only touches what is behind (A),
//     so the two effects are independent.
//  C. `c09_loss_full_n1/n2` + `c09_lost_from_eq_n1/n2`: the composition checked mechanically at
//     small shapes: `may_loss` with the helper replaced by the recursion-free reference
//     `ref_lost_from`, which is proved to produce the same boundary sequence as the real helper.
use super::verif_sndbuf_map::{any_map, any_map_relaxed, any_probe, check_inv, check_inv_from, color_at};
use super::*;

// ------------------------------------------------------------------------------------------------
// A. the recursive helper, concrete start index

fn lost_from_step<const N: usize, const I: usize>() {
    // precondition P: sorted boundaries, J behind I, boundary I-1 is Recved and below `end`
    // (or I == 0), no Pending byte below `end`. The colours in front of I-1 are arbitrary
    // (may_loss may have repainted them before the call).
    let (mut m, pre) = any_map_relaxed::<N>(I);
    let size = m.size();
    let end: u64 = kani::any();
    kani::assume(end <= m.sent());
    if I > 0 {
        kani::assume(pre[I - 1].color() == Color::Recved && pre[I - 1].offset() < end);
    }
    let x = any_probe(&m);
    let before = color_at(&m, x);
    let lo = if I < N { pre[I].offset() } else { size };

    m.may_lost_from(I, end);

    check_inv_from(&m, I);
    assert!(m.size() == size, "size unchanged");
    assert!(m.0.len() >= I && m.0.len() <= N + 1);
    let mut i = 0;
    while i < I {
        assert!(m.0[i] == pre[i], "boundaries in front of the start index are untouched");
        i += 1;
    }
    let after = color_at(&m, x);
    if x >= lo && x < end && before != Color::Recved {
        assert!(after == Color::Lost, "sent, unacked byte behind the start boundary and below `end` is Lost");
    } else {
        assert!(after == before, "every other byte keeps its colour");
    }
    kani::cover!(I >= N || (x >= lo && x < end && before == Color::Flighting), "in-flight byte marked lost");
    kani::cover!(I >= N || m.0.len() == N + 1, "split at the end of the lost range");
    kani::cover!(I + 3 > N || (x < end && before == Color::Recved && x > lo && color_at(&m, end - 1) == Color::Lost), "recursion across an acked hole");
}

macro_rules! lost_from_harness {
    ($name:ident, $f:ident, $n:literal, [$($i:literal),*]) => {
        #[kani::proof]
        #[kani::unwind(8)]
        fn $name() {
            $( $f::<$n, $i>(); )*
        }
    };
}

lost_from_harness!(c09_lost_from_n1, lost_from_step, 1, [0, 1]);
lost_from_harness!(c09_lost_from_n2, lost_from_step, 2, [0, 1, 2]);
lost_from_harness!(c09_lost_from_n3_lo, lost_from_step, 3, [0, 1]);
lost_from_harness!(c09_lost_from_n3_hi, lost_from_step, 3, [2, 3]);
lost_from_harness!(c09_lost_from_n4_i0, lost_from_step, 4, [0]);
lost_from_harness!(c09_lost_from_n4_i1, lost_from_step, 4, [1]);
lost_from_harness!(c09_lost_from_n4_hi, lost_from_step, 4, [2, 3, 4]);

// ------------------------------------------------------------------------------------------------
// B. may_loss with the helper observed

static mut REC_CALLS: u8 = 0;
static mut REC_IDX: usize = 0;
static mut REC_END: u64 = 0;

/// Observer stub for `BufMap::may_lost_from`: asserts the helper's precondition P, records the
/// arguments, leaves the map alone.
fn rec_lost_from(m: &mut BufMap, idx_start: usize, end: u64) {
    assert!(idx_start <= m.0.len(), "P: start index within the map");
    if idx_start > 0 {
        let p = m.0[idx_start - 1];
        assert!(p.color() == Color::Recved && p.offset() < end, "P: called right behind an acked boundary that starts below the end of the lost range");
    }
    assert!(end <= m.sent(), "P: no Pending byte below the end of the lost range");
    unsafe {
        REC_CALLS += 1;
        REC_IDX = idx_start;
        REC_END = end;
    }
}

fn loss_step<const N: usize>() {
    let (mut m, pre) = any_map::<N>();
    let size = m.size();
    let start: u64 = kani::any();
    let end: u64 = kani::any();
    // documented precondition: a non-empty range of bytes that were picked before
    kani::assume(start < end && end <= m.sent());
    let x = any_probe(&m);
    let before = color_at(&m, x);
    unsafe {
        REC_CALLS = 0;
    }

    m.may_loss(&(start..end));

    let (calls, rec_idx, rec_end) = unsafe { (REC_CALLS, REC_IDX, REC_END) };
    // where the helper takes over: p = number of boundaries <= start (the segment holding `start`
    // is p-1, or the implicitly acked prefix); r = first acked boundary behind it, below `end`
    let mut p = 0;
    let mut i = 0;
    while i < N {
        if pre[i].offset() <= start {
            p = i + 1;
        }
        i += 1;
    }
    let seg_recved = p == 0 || pre[p - 1].color() == Color::Recved;
    let mut r: Option<usize> = None;
    let mut i = 0;
    while i < N {
        if r.is_none() && i >= p && pre[i].offset() < end && pre[i].color() == Color::Recved {
            r = Some(i);
        }
        i += 1;
    }
    // eff_end: may_loss itself is responsible for [start, eff_end), the helper for the rest
    let (expect_call, eff_end) = if seg_recved {
        (Some(p), start)
    } else {
        match r {
            Some(r) => (Some(r + 1), pre[r].offset()),
            None => (None, end),
        }
    };
    match expect_call {
        Some(k) => assert!(calls == 1 && rec_idx == k && rec_end == end, "helper called once, right behind the acked boundary, with the end of the lost range"),
        None => assert!(calls == 0, "no acked hole in the range: helper not needed"),
    }
    check_inv(&m);
    assert!(m.size() == size, "loss report does not change the size");
    let after = color_at(&m, x);
    if x >= start && x < eff_end && before != Color::Recved {
        // (Pending is excluded by the precondition)
        assert!(after == Color::Lost, "Flighting/Lost byte reported lost is Lost (offered again)");
    } else {
        assert!(after == before, "Recved bytes and bytes outside the range keep their colour");
    }
    assert!(m.0.len() <= N + 2, "at most two boundaries are added");
    // the boundaries from the hand-over point on are exactly the old ones
    if let Some(k) = expect_call {
        let from = if k > 0 { k - 1 } else { 0 };
        assert!(m.0.len() + from >= N);
        let shift_up = m.0.len() + from >= N + from; // len_after >= N
        let mut i = 0;
        while i < N {
            if i >= from {
                let j = if shift_up { i + (m.0.len() - N) } else { i - (N - m.0.len()) };
                assert!(m.0[j] == pre[i], "boundaries behind the hand-over point untouched");
            }
            i += 1;
        }
        if seg_recved {
            assert!(m.0.len() == N, "hand-over at the very start: may_loss itself changes nothing");
        }
    }
    kani::cover!(N == 0 || (x >= start && x < eff_end && before == Color::Flighting), "loss of a byte in flight");
    kani::cover!(x >= start && x < end && before == Color::Recved, "loss after ack");
    kani::cover!(N == 0 || m.0.len() == N + 2, "split in the middle of a segment");
    kani::cover!(N < 2 || m.0.len() < N, "merge removed boundaries");
    kani::cover!(N < 2 || (!seg_recved && calls == 1), "loss range runs into an acked hole");
}

macro_rules! loss_step_harness {
    ($name:ident, $n:literal) => {
        #[kani::proof]
        #[kani::unwind(8)]
        #[kani::stub(BufMap::may_lost_from, rec_lost_from)]
        fn $name() {
            loss_step::<$n>();
        }
    };
}

loss_step_harness!(c09_loss_step_n0, 0);
loss_step_harness!(c09_loss_step_n1, 1);
loss_step_harness!(c09_loss_step_n2, 2);
loss_step_harness!(c09_loss_step_n3, 3);
loss_step_harness!(c09_loss_step_n4, 4);

// ------------------------------------------------------------------------------------------------
// C. mechanical composition at small shapes

/// Single-pass, recursion-free twin of `BufMap::may_lost_from` (same resulting boundary sequence;
/// proved in c09_lost_from_*). It walks the boundaries once with a concrete loop index and
/// rebuilds the sequence; a "level" is one invocation of the recursive original (the stretch
/// between two acked boundaries): its first converted boundary is kept (as Lost), the following
/// ones are merged into it, a Flighting remainder is split off at `end`.
/// Precondition (asserted at every stubbed call site): idx_start <= len; the boundary before
/// idx_start is Recved and starts below `end`; no Pending byte below `end`.
fn ref_lost_from(m: &mut BufMap, idx_start: usize, end: u64) {
    let n = m.0.len();
    assert!(n < 6, "reference: shape within the reference's capacity");
    assert!(idx_start <= n, "may_lost_from: start index within the map");
    if idx_start > 0 {
        let p = m.0[idx_start - 1];
        assert!(p.color() == Color::Recved && p.offset() < end, "may_lost_from: called right after an acked boundary below the end of the lost range");
    }
    assert!(end <= m.sent(), "may_lost_from: no Pending byte below the end of the lost range");
    const BEFORE: u8 = 0; // boundaries in front of idx_start: copied
    const SCAN: u8 = 1; // boundaries below `end`: converted
    const EQRUN: u8 = 2; // a boundary == end was met: swallow the Lost boundaries that follow
    const DONE: u8 = 3; // copy the rest
    // (plain local array + write-back through get_mut at concrete indices: moving whole container
    // values around costs CBMC byte-level copies)
    const MAXOUT: usize = 6;
    let mut out = [0u64; MAXOUT];
    let mut cnt: usize = 0;
    macro_rules! push {
        ($v:expr) => {{
            let v: State = $v;
            let mut k = 0;
            while k < MAXOUT {
                if k == cnt {
                    out[k] = v.0;
                }
                k += 1;
            }
            cnt += 1;
        }};
    }
    let mut mode = if idx_start == 0 { SCAN } else { BEFORE };
    let mut kept_first = false; // the current level already has its (kept) first Lost boundary
    let mut pre_color = Color::Recved;
    let mut i = 0;
    while i < MAXOUT - 1 {
        // (constant trip count; the map has n <= MAXOUT - 1 boundaries)
        if i >= n {
            break;
        }
        let s = m.0[i];
        if mode == BEFORE {
            push!(s);
            if i + 1 == idx_start {
                mode = SCAN;
            }
        } else {
            if mode == SCAN {
                match s.offset().cmp(&end) {
                    Ordering::Less => {
                        pre_color = s.color();
                        if s.color() == Color::Recved {
                            push!(s); // acked hole: the next boundary starts a new level
                            kept_first = false;
                        } else if !kept_first {
                            push!(State::encode(s.offset(), Color::Lost));
                            kept_first = true;
                        }
                    }
                    Ordering::Equal => mode = EQRUN,
                    Ordering::Greater => {
                        if pre_color == Color::Flighting {
                            push!(State::encode(end, Color::Flighting));
                        }
                        mode = DONE;
                    }
                }
            }
            if mode == EQRUN {
                if s.color() == Color::Lost {
                    if !kept_first {
                        push!(s);
                        kept_first = true;
                    }
                } else {
                    mode = DONE;
                }
            }
            if mode == DONE {
                push!(s);
            }
        }
        i += 1;
    }
    if mode == SCAN && end < m.size() && pre_color == Color::Flighting {
        push!(State::encode(end, Color::Flighting));
    }
    assert!(cnt <= n + 1 && cnt <= MAXOUT, "reference: at most one boundary added");
    // write back
    let mut j = 0;
    while j < MAXOUT - 1 {
        if j < n && j < cnt {
            m.0.get_mut(j).unwrap().0 = out[j];
        }
        j += 1;
    }
    if cnt > n {
        let mut last = 0;
        let mut k = 0;
        while k < MAXOUT {
            if k == n {
                last = out[k];
            }
            k += 1;
        }
        m.0.push_back(State(last));
    } else {
        m.0.truncate(cnt);
    }
}

fn lost_from_eq<const N: usize, const I: usize>() {
    let (mut a, pre) = any_map_relaxed::<N>(I);
    let mut b = BufMap::default();
    let mut i = 0;
    while i < N {
        b.0.push_back(pre[i]);
        i += 1;
    }
    b.1 = a.1;
    let end: u64 = kani::any();
    kani::assume(end <= a.sent());
    if I > 0 {
        kani::assume(pre[I - 1].color() == Color::Recved && pre[I - 1].offset() < end);
    }

    a.may_lost_from(I, end);
    ref_lost_from(&mut b, I, end);

    assert!(a.1 == b.1, "reference: same size");
    assert!(a.0.len() == b.0.len(), "reference: same number of boundaries");
    let mut i = 0;
    while i < N + 1 {
        if i < a.0.len() {
            assert!(a.0[i] == b.0[i], "reference: same boundary");
        }
        i += 1;
    }
    kani::cover!(I >= N || a.0.len() == N + 1, "split at the end of the lost range");
    kani::cover!(I + 2 > N || a.0.len() < N, "lost segments merged");
}

lost_from_harness!(c09_lost_from_eq_n1, lost_from_eq, 1, [0, 1]);
lost_from_harness!(c09_lost_from_eq_n2, lost_from_eq, 2, [0, 1, 2]);

fn loss_full<const N: usize>() {
    let (mut m, _pre) = any_map::<N>();
    let size = m.size();
    let start: u64 = kani::any();
    let end: u64 = kani::any();
    kani::assume(start < end && end <= m.sent());
    let x = any_probe(&m);
    let before = color_at(&m, x);

    m.may_loss(&(start..end));

    check_inv(&m);
    assert!(m.size() == size, "loss report does not change the size");
    let after = color_at(&m, x);
    if x >= start && x < end && before != Color::Recved {
        assert!(after == Color::Lost, "Flighting/Lost byte reported lost is Lost (offered again)");
    } else {
        assert!(after == before, "Recved bytes and bytes outside the range keep their colour");
    }
    kani::cover!(x >= start && x < end && before == Color::Flighting, "loss of a byte in flight");
    kani::cover!(x >= start && x < end && before == Color::Recved, "loss after ack");
}

#[kani::proof]
#[kani::unwind(8)]
#[kani::stub(BufMap::may_lost_from, ref_lost_from)]
fn c09_loss_full_n1() {
    loss_full::<1>();
}

#[kani::proof]
#[kani::unwind(8)]
#[kani::stub(BufMap::may_lost_from, ref_lost_from)]
fn c09_loss_full_n2() {
    loss_full::<2>();
}
