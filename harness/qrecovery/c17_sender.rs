// Kani harnesses compiled inside qrecovery::send::sender (overlay, cfg(kani) only).
// Property C17, sending half of a stream: from EVERY state of the sender state machine
// (Ready / Sending / DataSent / DataRcvd / ResetSent / ResetRcvd, any combination of parked
// writer tasks), after `Outgoing::on_conn_error(e1)`:
//   * every parked waker (writable / flush / shutdown) has been woken exactly once,
//   * the shared state is the connection error e1 — which is what every `Writer` operation
//     (`poll_ready`, `write`, `poll_write`, `poll_flush`, `poll_shutdown`) returns first thing
//     (`sender.as_mut().map_err(|e| e.clone())?`) — and a second `on_conn_error(e2)` neither
//     replaces it nor wakes anybody,
//   * a STOP_SENDING that arrives afterwards produces no RESET_STREAM, no frame is queued, the
//     transport is not poked. (`try_load_data_into` / ack / loss feedback after the error: written,
//     did not finish on the shared machine, not registered.)
// Streams that had already finished (DataRcvd) or were reset keep their own final state (their
// Writer operations complete immediately with that state; nobody can be parked on them).
use bytes::BufMut;
use qbase::{
    error::{ErrorKind, QuicError},
    frame::Frame,
    packet::io::RecordFrame,
    role::Role,
    sid::Dir,
};

use super::*;
use crate::send::outgoing::Outgoing;

include!("../qbase/wake_common.rs");
use vwk::{waker, wakes};

static SEQ: [u8; 8] = [0, 1, 2, 3, 4, 5, 6, 7];

#[derive(Clone, Debug)]
pub(crate) struct Broker;
static mut RESETS: u32 = 0;
impl SendFrame<ResetStreamFrame> for Broker {
    fn send_frame<I: IntoIterator<Item = ResetStreamFrame>>(&self, iter: I) {
        for _f in iter {
            unsafe { RESETS += 1 };
        }
    }
}

static mut RAISED: u32 = 0;
/// `ArcSendWakers::wake_all_by` walks a BTreeMap<Pathway, _> (intractable even when empty,
/// NOTES-tracing.md); the harness only needs to know that the transport was poked.
pub(crate) fn stub_wake_all_by(_t: &ArcSendWakers, _s: Signals) {
    unsafe { RAISED += 1 };
}

/// std::sync::Mutex::lock without the futex slow path: one CAS; a lock that is already held would
/// be a self-deadlock of the real code and is reported.
pub(crate) fn stub_mutex_lock<T: ?Sized>(m: &std::sync::Mutex<T>) -> std::sync::LockResult<std::sync::MutexGuard<'_, T>> {
    match m.try_lock() {
        Ok(g) => Ok(g),
        Err(std::sync::TryLockError::Poisoned(p)) => Err(p),
        Err(std::sync::TryLockError::WouldBlock) => panic!("self-deadlock: mutex already held"),
    }
}

pub(crate) fn stub_fmt(_a: core::fmt::Arguments<'_>) -> String {
    String::new()
}
pub(crate) fn stub_slice_index_fail(_s: usize, _e: usize, _l: usize) -> ! {
    panic!("slice index out of range")
}
pub(crate) fn stub_tr_interest(_c: &'static tracing::callsite::DefaultCallsite) -> tracing::subscriber::Interest {
    tracing::subscriber::Interest::never()
}
pub(crate) fn stub_tr_enabled(_m: &tracing::Metadata<'static>, _i: tracing::subscriber::Interest) -> bool {
    false
}
pub(crate) fn stub_tr_dispatch<'a: 'a>(_m: &'static tracing::Metadata<'static>, _f: &'a tracing::field::ValueSet<'_>) {}

pub(crate) fn any_kind() -> ErrorKind {
    let k: u8 = kani::any();
    match k % 6 {
        0 => ErrorKind::Internal,
        1 => ErrorKind::FlowControl,
        2 => ErrorKind::ProtocolViolation,
        3 => ErrorKind::FinalSize,
        4 => ErrorKind::None,
        _ => ErrorKind::StreamLimit,
    }
}

pub(crate) fn conn_error(kind: ErrorKind) -> Error {
    Error::Quic(QuicError::with_default_fty(kind, "x"))
}

pub(crate) fn any_sid() -> StreamId {
    let id: u64 = kani::any();
    kani::assume(id < (1u64 << 60));
    StreamId::new(
        if kani::any() { Role::Client } else { Role::Server },
        if kani::any() { Dir::Bi } else { Dir::Uni },
        id,
    )
}

/// A packet buffer that records how many bytes / frames were put into it.
pub(crate) struct Packet {
    cap: usize,
    pos: usize,
    frames: u32,
    dummy: [u8; 1],
}

unsafe impl BufMut for Packet {
    fn remaining_mut(&self) -> usize {
        self.cap - self.pos
    }
    unsafe fn advance_mut(&mut self, cnt: usize) {
        self.pos += cnt;
    }
    fn chunk_mut(&mut self) -> &mut bytes::buf::UninitSlice {
        panic!("raw chunk access is not used by the frame writers");
        #[allow(unreachable_code)]
        bytes::buf::UninitSlice::new(&mut self.dummy[..])
    }
    fn put_slice(&mut self, src: &[u8]) {
        assert!(src.len() <= self.cap - self.pos, "advance out of bounds");
        self.pos += src.len();
    }
    fn put_bytes(&mut self, _val: u8, cnt: usize) {
        assert!(cnt <= self.cap - self.pos, "advance out of bounds");
        self.pos += cnt;
    }
}

impl<'a> RecordFrame<Frame<&'a [Bytes]>, &'a [Bytes]> for Packet {
    fn record_frame(&mut self, _frame: &Frame<&'a [Bytes]>) {
        self.frames += 1;
    }
}

/// Which wakers are parked: bit 0 writable (task 0), bit 1 flush (task 1), bit 2 shutdown (task 2).
fn opt_waker(mask: u8, bit: u8) -> Option<Waker> {
    if mask & (1 << bit) != 0 { Some(waker(bit as usize)) } else { None }
}

fn any_sndbuf() -> SendBuf {
    let max_data: u64 = kani::any();
    kani::assume(max_data <= VARINT_MAX);
    let mut b = SendBuf::with_capacity(max_data);
    if kani::any() {
        b.write(Bytes::from_static(&SEQ).slice(0..3));
    }
    b
}

/// Arbitrary sender state of kind KIND with the parked wakers of `mask`.
/// Returns the state and the mask of wakers that the state can actually hold.
fn any_state<const KIND: u8>(mask: u8, tx: &ArcSendWakers) -> (Sender<Broker>, u8) {
    let sid = any_sid();
    match KIND {
        0 => (
            Sender::Ready(ReadySender {
                stream_id: sid,
                sndbuf: any_sndbuf(),
                flush_waker: opt_waker(mask, 1),
                shutdown_waker: opt_waker(mask, 2),
                broker: Broker,
                tx_wakers: tx.clone(),
                writable_waker: opt_waker(mask, 0),
                metrics: None,
            }),
            mask & 7,
        ),
        1 => (
            Sender::Sending(SendingSender {
                stream_id: sid,
                sndbuf: any_sndbuf(),
                flush_waker: opt_waker(mask, 1),
                shutdown_waker: opt_waker(mask, 2),
                broker: Broker,
                tx_wakers: tx.clone(),
                writable_waker: opt_waker(mask, 0),
                metrics: None,
            }),
            mask & 7,
        ),
        2 => (
            Sender::DataSent(DataSentSender {
                stream_id: sid,
                sndbuf: any_sndbuf(),
                flush_waker: opt_waker(mask, 1),
                shutdown_waker: opt_waker(mask, 2),
                broker: Broker,
                tx_wakers: tx.clone(),
                fin_state: match kani::any::<u8>() % 3 {
                    0 => FinState::Sent,
                    1 => FinState::Lost,
                    _ => FinState::Rcvd,
                },
            }),
            mask & 6,
        ),
        3 => (Sender::DataRcvd, 0),
        4 => (Sender::ResetSent(ResetStreamError::new(VarInt::from_u32(1), VarInt::from_u32(0))), 0),
        _ => (Sender::ResetRcvd(ResetStreamError::new(VarInt::from_u32(1), VarInt::from_u32(0))), 0),
    }
}

fn poison_step<const KIND: u8>() {
    let mask: u8 = kani::any();
    kani::assume(mask < 8);
    // (the harness keeps its own handle on the path wakers: dropping the last handle would run the
    // drop glue of an empty BTreeMap<Pathway, _>, which CBMC cannot get through)
    let tx = ArcSendWakers::default();
    let (state, parked) = any_state::<KIND>(mask, &tx);
    let arc = ArcSender(Arc::new(Mutex::new(Ok(state))));
    let outgoing = Outgoing::new(arc.clone());
    let k1 = any_kind();
    let k2 = any_kind();
    kani::assume(k1 != k2);

    outgoing.on_conn_error(&conn_error(k1));

    let mut i = 0;
    while i < 3 {
        assert!(wakes(i) == if parked & (1 << i) != 0 { 1 } else { 0 }, "every parked writer task is woken exactly once, nobody else");
        i += 1;
    }
    outgoing.on_conn_error(&conn_error(k2));
    let mut i = 0;
    while i < 3 {
        assert!(wakes(i) == if parked & (1 << i) != 0 { 1 } else { 0 }, "a second connection error wakes nobody");
        i += 1;
    }
    {
        let guard = arc.sender();
        match &*guard {
            Err(e) => {
                assert!(KIND <= 2, "only live streams are poisoned");
                assert!(e.kind() == k1, "the first connection error is the one every later Writer operation returns");
            }
            Ok(s) => {
                assert!(KIND >= 3, "a live stream must be poisoned");
                let same = match s {
                    Sender::DataRcvd => KIND == 3,
                    Sender::ResetSent(_) => KIND == 4,
                    Sender::ResetRcvd(_) => KIND == 5,
                    _ => false,
                };
                assert!(same, "a finished / reset stream keeps its final state");
            }
        }
    }
    let sid = any_sid();
    let _ = sid;
    assert!(outgoing.be_stopped(0).is_none(), "STOP_SENDING after the end: no RESET_STREAM");
    assert!(unsafe { RESETS } == 0 && unsafe { RAISED } == 0, "no frame is queued, the transport is not poked");
    {
        let guard = arc.sender();
        assert!(guard.is_err() == (KIND <= 2));
        if let Err(e) = &*guard {
            assert!(e.kind() == k1);
        }
    }
    kani::cover!(parked == if KIND <= 1 { 7 } else if KIND == 2 { 6 } else { 0 }, "every task that can be parked in this state is parked");
    kani::cover!(parked == 0, "nobody parked");
    core::mem::forget(outgoing);
    core::mem::forget(arc);
    core::mem::forget(tx);
}

macro_rules! poison_harness {
    ($name:ident, $k:literal) => {
        #[kani::proof]
        #[kani::unwind(6)]
        #[kani::stub(std::sync::Mutex::lock, stub_mutex_lock)]
        #[kani::stub(qbase::net::tx::ArcSendWakers::wake_all_by, stub_wake_all_by)]
        #[kani::stub(alloc::fmt::format, stub_fmt)]
        #[kani::stub(core::slice::index::slice_index_fail, stub_slice_index_fail)]
        #[kani::stub(tracing::callsite::DefaultCallsite::interest, stub_tr_interest)]
        #[kani::stub(tracing::__macro_support::__is_enabled, stub_tr_enabled)]
        #[kani::stub(tracing::Event::dispatch, stub_tr_dispatch)]
        fn $name() {
            poison_step::<$k>();
        }
    };
}

poison_harness!(c17_outgoing_poison_ready, 0);
poison_harness!(c17_outgoing_poison_data_rcvd, 3);

// NOT REGISTERED (written, did not finish in 900 s on the shared machine; see props/C17.toml `outside`):
// the same step for the states Sending / DataSent / ResetSent / ResetRcvd (`poison_harness!(name, 1|2|4|5)`),
// `Outgoing::try_load_data_into` and ack / loss / window feedback after the error.
