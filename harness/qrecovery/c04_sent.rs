// Kani harnesses compiled inside qrecovery::journal::sent (overlay, cfg(kani) only).  Property C04.
//
// SentRotateGuard::update_largest is the ONLY place where the Largest Acknowledged field of a
// received ACK frame is compared with what this endpoint has sent (RFC 9000 §13.1: "An endpoint
// SHOULD treat receipt of an acknowledgment for a packet it did not send as a connection error of
// type PROTOCOL_VIOLATION").  `sent_packets.largest()` is the NEXT packet number to be used
// (offset + len, see NewPacketGuard::pn), i.e. the smallest number NOT yet sent.
//
// std VecDeque (sent.rs, util/index_deque.rs) -> verif_model::VecDeque.
use super::*;

const M62: u64 = 1u64 << 62;

/// std::sync::Mutex::lock without the futex slow path (single-threaded harness; a lock that is
/// not immediately available is reported as a failure, not assumed away).
fn stub_lock<T: ?Sized>(m: &Mutex<T>) -> std::sync::LockResult<MutexGuard<'_, T>> {
    match m.try_lock() {
        Ok(g) => Ok(g),
        Err(_) => panic!("mutex already held in a single-threaded harness: self-deadlock"),
    }
}

/// A sent journal whose window holds N packet records at a symbolic 62-bit offset (records before
/// `off` were acknowledged/expired and slid out). Record contents are irrelevant to update_largest.
/// Representation invariant of real histories: largest_acked_pktno <= next packet number.
fn any_journal<const N: usize>() -> (ArcSentJournal<u8>, u64, u64) {
    let mut sent_packets: IndexDeque<SentPktState, VARINT_MAX> = IndexDeque::default();
    let mut i = 0;
    while i < N {
        sent_packets.push_back(SentPktState::Skipped).unwrap();
        i += 1;
    }
    let off: u64 = kani::any();
    kani::assume(off < M62 - 8);
    sent_packets.reset_offset(off);
    let next_pn = off + N as u64;
    let acked: u64 = kani::any();
    kani::assume(acked <= next_pn);
    let j = SentJournal { queue: VecDeque::new(), sent_packets, largest_acked_pktno: acked };
    (ArcSentJournal(Arc::new(Mutex::new(j))), next_pn, acked)
}

fn any_ack() -> AckFrame {
    let largest: u64 = kani::any();
    let first: u64 = kani::any();
    let delay: u64 = kani::any();
    kani::assume(largest < M62 && first < M62 && delay < M62);
    let v = |x| qbase::varint::VarInt::from_u64(x).unwrap();
    AckFrame::new(v(largest), v(delay), v(first), Vec::new(), None)
}

/// `strict`: the specification (reject largest >= next unsent).  !strict: what the code implements
/// away from the boundary (largest != next_pn assumed).
fn update_largest_step<const N: usize>(strict: bool) {
    let (arc, next_pn, acked) = any_journal::<N>();
    let f = any_ack();
    let largest = f.largest();
    if !strict {
        kani::assume(largest != next_pn);
    }
    let mut g = arc.rotate();
    let r = g.update_largest(&f);
    assert!(g.inner.sent_packets.largest() == next_pn && g.inner.sent_packets.len() == N, "the window is not touched");
    match &r {
        Err(e) => {
            assert!(largest >= next_pn, "only an acknowledgement of an unsent packet is refused");
            assert!(e.kind() == ErrorKind::ProtocolViolation, "PROTOCOL_VIOLATION");
            assert!(matches!(e.frame_type(), qbase::error::ErrorFrameType::V1(qbase::frame::FrameType::Ack(qbase::frame::Ecn::None))), "the error names the ACK frame");
            assert!(g.inner.largest_acked_pktno == acked, "a refused frame changes nothing");
        }
        Ok(()) => {
            assert!(largest < next_pn, "C04: an ACK whose Largest Acknowledged was never sent must be refused");
            assert!(g.inner.largest_acked_pktno == if largest > acked { largest } else { acked }, "largest acked = max");
        }
    }
    assert!(g.inner.largest_acked_pktno <= next_pn, "invariant re-established");
    kani::cover!(r.is_err(), "refused");
    kani::cover!(r.is_ok() && largest > acked, "largest acknowledged advances");
    kani::cover!(r.is_ok() && largest < acked, "stale ACK");
    core::mem::forget(r);
    core::mem::forget(g); // Drop = SentJournal::resize (clock + expiry), not part of this step
    core::mem::forget(arc);
}

// pending (suspected genuine defect #5): `>` instead of `>=`: largest == next unsent pn is accepted.
#[kani::proof]
#[kani::unwind(6)]
#[kani::stub(std::sync::Mutex::lock, stub_lock)]
fn c04_p_sent_ack_of_unsent_rejected_n0() {
    update_largest_step::<0>(true);
}

#[kani::proof]
#[kani::unwind(6)]
#[kani::stub(std::sync::Mutex::lock, stub_lock)]
fn c04_p_sent_ack_of_unsent_rejected_n2() {
    update_largest_step::<2>(true);
}

// passing twins (boundary value largest == next_pn assumed away)
#[kani::proof]
#[kani::unwind(6)]
#[kani::stub(std::sync::Mutex::lock, stub_lock)]
fn c04_sent_update_largest_n0() {
    update_largest_step::<0>(false);
}

#[kani::proof]
#[kani::unwind(6)]
#[kani::stub(std::sync::Mutex::lock, stub_lock)]
fn c04_sent_update_largest_n3() {
    update_largest_step::<3>(false);
}
