// Kani harnesses compiled inside qrecovery::journal::sent (overlay, cfg(kani) only).
// The frame queue (std VecDeque) and the VecDeque inside qbase's IndexDeque are replaced by verif_model.
//
// C10, sent-journal half: "when a peer's ACK arrives, exactly the frames that were carried in the
// newly acknowledged packets are reported as delivered, once each, and frames of packets declared
// lost are reported for retransmission."
//
// One inductive step of every SentJournal operation from an arbitrary valid pre-state:
//   * N packet records (N concrete per harness instance) of symbolic kind
//     {Skipped, Flighting, Retransmitted, Acked} with symbolic nframes 0..=2 (Skipped: 0) at a
//     symbolic 62-bit window offset;
//   * the flat frame queue holds one tag per recorded frame. Tags are the identity sequence
//     (the frame at queue position i has tag TAG0 + i), so "the frames of packet pn" is the tag
//     interval [TAG0 + start(pn), TAG0 + start(pn) + nframes(pn)) with start(pn) = sum of nframes of
//     the records in front of pn — every tag is distinct and belongs to exactly one packet;
//   * invariant K: queue.len() == sum of nframes over sent_packets (re-established by every step).
use super::*;

// ---- clock (same construction as journal_rcvd.rs; c10_clock_model_sane checks the layout) -------
#[repr(C)]
struct RawTs {
    s: i64,
    n: u32,
}

fn mk_instant(secs: u64) -> Instant {
    let std_i: std::time::Instant = unsafe { core::mem::transmute(RawTs { s: secs as i64, n: 0 }) };
    Instant::from_std(std_i)
}

const T_MAX: u64 = 1u64 << 40;

fn any_instant() -> Instant {
    let s: u64 = kani::any();
    kani::assume(s < T_MAX);
    mk_instant(s)
}

static mut NOW_SECS: u64 = 0;

/// Stub for tokio::time::Instant::now: an arbitrary instant chosen by the harness.
fn stub_now() -> Instant {
    mk_instant(unsafe { NOW_SECS })
}

fn set_any_now() -> Instant {
    let s: u64 = kani::any();
    kani::assume(s < T_MAX);
    unsafe { NOW_SECS = s };
    mk_instant(s)
}

// tracing stubs (NOTES-tracing.md): should_remain_after logs through tracing::trace!
fn stub_tr_interest(_c: &'static tracing::callsite::DefaultCallsite) -> tracing::subscriber::Interest {
    tracing::subscriber::Interest::never()
}
fn stub_tr_enabled(_m: &tracing::Metadata<'static>, _i: tracing::subscriber::Interest) -> bool {
    false
}
fn stub_tr_dispatch<'a: 'a>(_m: &'static tracing::Metadata<'static>, _f: &'a tracing::field::ValueSet<'_>) {}

// ---- pre-states --------------------------------------------------------------------------------
const SKIPPED: u8 = 0;
const FLIGHTING: u8 = 1;
const RETRANS: u8 = 2;
const ACKED: u8 = 3;

const TAG0: u64 = 1000;
const M62: u64 = 1u64 << 62;
/// frames per packet in the pre-state
const MAXF: usize = 2;

type J = SentJournal<u64>;

#[derive(Clone, Copy)]
struct Rec {
    kind: u8,
    nframes: usize,
    expire: Instant,
    retran: Instant,
}

fn kind_of(s: &SentPktState) -> u8 {
    match s {
        SentPktState::Skipped => SKIPPED,
        SentPktState::Flighting { .. } => FLIGHTING,
        SentPktState::Retransmitted { .. } => RETRANS,
        SentPktState::Acked { .. } => ACKED,
    }
}

fn any_rec() -> (SentPktState, Rec) {
    let kind: u8 = kani::any();
    kani::assume(kind < 4);
    let nframes: usize = kani::any();
    kani::assume(nframes <= MAXF);
    let sent_time = any_instant();
    let expire_time = any_instant();
    let retran_time = any_instant();
    let (st, nf) = match kind {
        SKIPPED => (SentPktState::Skipped, 0),
        FLIGHTING => (SentPktState::Flighting { nframes, sent_time, expire_time, retran_time }, nframes),
        RETRANS => (SentPktState::Retransmitted { nframes, sent_time, expire_time }, nframes),
        _ => (SentPktState::Acked { nframes, sent_time, expire_time }, nframes),
    };
    (st, Rec { kind, nframes: nf, expire: expire_time, retran: retran_time })
}

/// A journal with exactly N packet records satisfying K; returns the harness-side description and
/// `starts[i]` = queue position of the first frame of record i (`starts[N]` = queue length).
fn any_journal<const N: usize, const N1: usize>() -> (J, [Rec; N], [usize; N1], u64) {
    assert!(N1 == N + 1);
    let mut j = J::default();
    let dummy = Rec { kind: SKIPPED, nframes: 0, expire: mk_instant(0), retran: mk_instant(0) };
    let mut recs = [dummy; N];
    let mut starts = [0usize; N1];
    let mut total = 0usize;
    let mut i = 0;
    while i < N {
        let (st, r) = any_rec();
        recs[i] = r;
        starts[i] = total;
        // pushed at the concrete offset 0: IndexDeque::push_back's limit test is decided during
        // symbolic execution; the window is moved to its symbolic position afterwards
        j.sent_packets.push_back(st).unwrap();
        let mut f = 0;
        while f < MAXF {
            if f < r.nframes {
                j.queue.push_back(TAG0 + (total + f) as u64);
            }
            f += 1;
        }
        total += r.nframes;
        i += 1;
    }
    starts[N] = total;
    let off: u64 = kani::any();
    kani::assume(off < M62 - 16);
    j.sent_packets.reset_offset(off);
    let la: u64 = kani::any();
    kani::assume(la <= off + N as u64); // largest acked never beyond what was sent (update_largest)
    j.largest_acked_pktno = la;
    (j, recs, starts, off)
}

/// Invariant K + the frame queue still holds the identity tags from `first_tag` on.
fn check_inv(j: &J, first_pos: usize) {
    let mut sum = 0usize;
    let n = j.sent_packets.len();
    let mut i = 0;
    while i < n {
        sum += j.sent_packets.get(j.sent_packets.offset() + i as u64).unwrap().nframes();
        i += 1;
    }
    assert!(j.queue.len() == sum, "K: queue.len() == sum of nframes");
    let p: usize = kani::any();
    kani::assume(p < j.queue.len());
    assert!(*j.queue.get(p).unwrap() == TAG0 + (first_pos + p) as u64, "frame queue content/alignment unchanged");
}

fn rec_index<const N: usize>(off: u64, pn: u64) -> Option<usize> {
    if pn >= off && pn - off < N as u64 { Some((pn - off) as usize) } else { None }
}

/// Drains `it` (at most MAXF + 1 items) and asserts it yields exactly the tags
/// TAG0+start .. TAG0+start+count, in order, once each.
fn expect_tags(mut it: impl Iterator<Item = u64>, start: usize, count: usize) {
    let mut k = 0;
    while k < MAXF + 1 {
        match it.next() {
            Some(t) => {
                assert!(k < count, "no frame beyond those of the packet is reported");
                assert!(t == TAG0 + (start + k) as u64, "exactly the frames carried in that packet, in order");
            }
            None => {
                assert!(k >= count, "every frame of the packet is reported");
            }
        }
        k += 1;
    }
}

/// All records other than `except` are exactly what they were.
fn others_unchanged<const N: usize>(j: &J, recs: &[Rec; N], off: u64, except: Option<usize>) {
    assert!(j.sent_packets.offset() == off && j.sent_packets.len() == N, "the window is not restructured");
    let mut i = 0;
    while i < N {
        if Some(i) != except {
            let s = j.sent_packets.get(off + i as u64).unwrap();
            assert!(kind_of(s) == recs[i].kind && s.nframes() == recs[i].nframes, "other packet records untouched");
        }
        i += 1;
    }
}

// ---- on_packet_acked ---------------------------------------------------------------------------
fn ack_step<const N: usize, const N1: usize>() {
    let (mut j, recs, starts, off) = any_journal::<N, N1>();
    let la = j.largest_acked_pktno;
    let pn: u64 = kani::any();
    let idx = rec_index::<N>(off, pn);
    let (start, count, kind) = match idx {
        Some(i) => (
            starts[i],
            if recs[i].kind == FLIGHTING || recs[i].kind == RETRANS { recs[i].nframes } else { 0 },
            recs[i].kind,
        ),
        None => (0, 0, SKIPPED),
    };

    expect_tags(j.on_packet_acked(pn), start, count);

    others_unchanged(&j, &recs, off, idx);
    if let Some(i) = idx {
        let s = j.sent_packets.get(pn).unwrap();
        assert!(s.nframes() == recs[i].nframes, "the record keeps its frame count (alignment of later packets)");
        let want = if kind == SKIPPED { SKIPPED } else { ACKED };
        assert!(kind_of(s) == want, "an in-flight / retransmitted packet becomes Acked; Skipped stays Skipped");
        if let SentPktState::Acked { expire_time, .. } = s {
            assert!(*expire_time == recs[i].expire);
        }
    }
    assert!(j.largest_acked_pktno == la);
    check_inv(&j, 0);

    // once each: acknowledging the same number again reports nothing
    expect_tags(j.on_packet_acked(pn), start, 0);
    others_unchanged(&j, &recs, off, idx);
    check_inv(&j, 0);

    kani::cover!(N == 0 || (count == 2 && start > 0), "two frames of a later packet delivered");
    kani::cover!(N == 0 || (idx.is_some() && kind == ACKED && recs[idx.unwrap()].nframes > 0), "duplicate ack of an acked packet");
    kani::cover!(N == 0 || (idx.is_some() && kind == RETRANS && count > 0), "ack after the packet was declared lost");
    kani::cover!(pn < off, "ack of a number below the window");
    kani::cover!(pn >= off + N as u64, "ack of a number beyond the window");
    core::mem::forget(j);
}

#[kani::proof]
#[kani::unwind(8)]
fn c10_sent_ack_step_n0() {
    ack_step::<0, 1>();
}

#[kani::proof]
#[kani::unwind(8)]
fn c10_sent_ack_step_n1() {
    ack_step::<1, 2>();
}

#[kani::proof]
#[kani::unwind(8)]
fn c10_sent_ack_step_n2() {
    ack_step::<2, 3>();
}

#[kani::proof]
#[kani::unwind(8)]
fn c10_sent_ack_step_n3() {
    ack_step::<3, 4>();
}

// ---- may_loss_packet ---------------------------------------------------------------------------
fn loss_step<const N: usize, const N1: usize>() {
    let (mut j, recs, starts, off) = any_journal::<N, N1>();
    let la = j.largest_acked_pktno;
    let pn: u64 = kani::any();
    let idx = rec_index::<N>(off, pn);
    let (start, count, kind) = match idx {
        Some(i) => (
            starts[i],
            if recs[i].kind == FLIGHTING || recs[i].kind == RETRANS { recs[i].nframes } else { 0 },
            recs[i].kind,
        ),
        None => (0, 0, SKIPPED),
    };

    expect_tags(j.may_loss_packet(pn), start, count);

    others_unchanged(&j, &recs, off, idx);
    if let Some(i) = idx {
        let s = j.sent_packets.get(pn).unwrap();
        assert!(s.nframes() == recs[i].nframes);
        let want = if kind == FLIGHTING { RETRANS } else { kind };
        assert!(kind_of(s) == want, "in-flight becomes Retransmitted; Acked / Skipped / Retransmitted stay");
        if let SentPktState::Retransmitted { expire_time, .. } = s {
            assert!(*expire_time == recs[i].expire);
        }
    }
    assert!(j.largest_acked_pktno == la);
    check_inv(&j, 0);

    // a late ACK of a packet declared lost still reports its frames as delivered — exactly once
    expect_tags(j.on_packet_acked(pn), start, count);
    expect_tags(j.on_packet_acked(pn), start, 0);
    // and a loss report after the ack reports nothing
    expect_tags(j.may_loss_packet(pn), start, 0);
    check_inv(&j, 0);

    kani::cover!(N == 0 || (count == 2 && start > 0 && kind == FLIGHTING), "two frames of a later in-flight packet reported lost");
    kani::cover!(N == 0 || (idx.is_some() && kind == ACKED && recs[idx.unwrap()].nframes > 0), "loss report for an acked packet: nothing");
    kani::cover!(pn >= off + N as u64, "loss report beyond the window");
    core::mem::forget(j);
}

#[kani::proof]
#[kani::unwind(8)]
fn c10_sent_loss_step_n1() {
    loss_step::<1, 2>();
}

#[kani::proof]
#[kani::unwind(8)]
fn c10_sent_loss_step_n2() {
    loss_step::<2, 3>();
}

#[kani::proof]
#[kani::unwind(8)]
fn c10_sent_loss_step_n3() {
    loss_step::<3, 4>();
}

// ---- resize (expiry; runs when the SentRotateGuard is dropped) -----------------------------------
/// May record i be forgotten at time `now`? (Skipped / Acked: yes; in flight: never; declared lost:
/// once its expire time has passed.)
fn droppable(r: &Rec, now: Instant) -> bool {
    match r.kind {
        SKIPPED | ACKED => true,
        FLIGHTING => false,
        _ => !(r.expire > now),
    }
}

fn resize_step<const N: usize, const N1: usize>() {
    let (mut j, recs, starts, off) = any_journal::<N, N1>();
    let now = set_any_now();
    let mut expect = 0;
    while expect < N && droppable(&recs[expect], now) {
        expect += 1;
    }

    j.resize();

    assert!(j.sent_packets.offset() == off + expect as u64, "exactly the droppable prefix of packet records is removed");
    assert!(j.sent_packets.len() == N - expect);
    let mut i = 0;
    while i < N {
        if i >= expect {
            let s = j.sent_packets.get(off + i as u64).unwrap();
            assert!(kind_of(s) == recs[i].kind && s.nframes() == recs[i].nframes, "kept records untouched");
        }
        i += 1;
    }
    // exactly the frames of the dropped packets leave the queue: the first remaining frame is the
    // first frame of the first kept packet (alignment preserved)
    check_inv(&j, starts[expect]);

    kani::cover!(N == 0 || (expect == N && starts[N] > 2), "whole window (with frames) dropped");
    kani::cover!(N < 2 || (expect == 1 && recs[0].kind == RETRANS && recs[0].nframes > 0 && recs[1].nframes > 0), "expired lost packet dropped, next one kept");
    kani::cover!(N == 0 || (expect == 0 && recs[0].kind == RETRANS), "lost packet not yet expired is kept");
    core::mem::forget(j);
}

#[kani::proof]
#[kani::unwind(8)]
#[kani::stub(tokio::time::Instant::now, stub_now)]
#[kani::stub(tracing::callsite::DefaultCallsite::interest, stub_tr_interest)]
#[kani::stub(tracing::__macro_support::__is_enabled, stub_tr_enabled)]
#[kani::stub(tracing::Event::dispatch, stub_tr_dispatch)]
fn c10_sent_resize_n2() {
    resize_step::<2, 3>();
}

#[kani::proof]
#[kani::unwind(8)]
#[kani::stub(tokio::time::Instant::now, stub_now)]
#[kani::stub(tracing::callsite::DefaultCallsite::interest, stub_tr_interest)]
#[kani::stub(tracing::__macro_support::__is_enabled, stub_tr_enabled)]
#[kani::stub(tracing::Event::dispatch, stub_tr_dispatch)]
fn c10_sent_resize_n3() {
    resize_step::<3, 4>();
}

// ---- ack of a packet after the window moved: frame offsets follow the window ---------------------
/// resize then on_packet_acked: the frame-offset arithmetic (sum of nframes in front of pn) stays
/// aligned with the queue after a prefix was dropped.
#[kani::proof]
#[kani::unwind(8)]
#[kani::stub(tokio::time::Instant::now, stub_now)]
#[kani::stub(tracing::callsite::DefaultCallsite::interest, stub_tr_interest)]
#[kani::stub(tracing::__macro_support::__is_enabled, stub_tr_enabled)]
#[kani::stub(tracing::Event::dispatch, stub_tr_dispatch)]
fn c10_sent_resize_then_ack_n3() {
    const N: usize = 3;
    let (mut j, recs, starts, off) = any_journal::<N, 4>();
    let now = set_any_now();
    let mut dropped = 0;
    while dropped < N && droppable(&recs[dropped], now) {
        dropped += 1;
    }
    j.resize();
    let pn: u64 = kani::any();
    let idx = rec_index::<N>(off, pn);
    let (start, count) = match idx {
        Some(i) if i >= dropped && (recs[i].kind == FLIGHTING || recs[i].kind == RETRANS) => (starts[i], recs[i].nframes),
        _ => (0, 0),
    };
    // tags are absolute: a frame keeps its tag when the queue is drained in front of it
    expect_tags(j.on_packet_acked(pn), start, count);
    check_inv(&j, starts[dropped]);
    kani::cover!(dropped == 1 && starts[1] > 0 && count > 0 && idx == Some(2), "ack of the last packet after the first one (with frames) was dropped");
    kani::cover!(idx.is_some() && idx.unwrap() < dropped && recs[idx.unwrap()].kind == RETRANS, "ack of an expired packet: nothing");
    core::mem::forget(j);
}

// ---- update_largest ----------------------------------------------------------------------------
fn stub_mutex_lock<T: ?Sized>(m: &std::sync::Mutex<T>) -> std::sync::LockResult<std::sync::MutexGuard<'_, T>> {
    match m.try_lock() {
        Ok(g) => Ok(g),
        Err(std::sync::TryLockError::Poisoned(p)) => Err(p),
        Err(std::sync::TryLockError::WouldBlock) => panic!("self-deadlock: mutex already held"),
    }
}

/// Through the public wrappers: ArcSentJournal::rotate -> SentRotateGuard::{update_largest,
/// on_packet_acked, may_loss_packet} -> drop (resize).
#[kani::proof]
#[kani::unwind(8)]
#[kani::stub(std::sync::Mutex::lock, stub_mutex_lock)]
#[kani::stub(tokio::time::Instant::now, stub_now)]
#[kani::stub(tracing::callsite::DefaultCallsite::interest, stub_tr_interest)]
#[kani::stub(tracing::__macro_support::__is_enabled, stub_tr_enabled)]
#[kani::stub(tracing::Event::dispatch, stub_tr_dispatch)]
fn c10_sent_rotate_guard_n2() {
    const N: usize = 2;
    let (j, recs, starts, off) = any_journal::<N, 3>();
    let la = j.largest_acked_pktno;
    let now = set_any_now();
    let arc = ArcSentJournal(Arc::new(Mutex::new(j)));
    let largest: u64 = kani::any();
    kani::assume(largest < M62);
    let frame = AckFrame::new(
        qbase::varint::VarInt::from_u64(largest).unwrap(),
        qbase::varint::VarInt::from_u32(0),
        qbase::varint::VarInt::from_u32(0),
        Vec::new(),
        None,
    );
    let next = off + N as u64; // next packet number to be sent
    let mut dropped = 0;
    {
        let mut guard = arc.rotate();
        let res = guard.update_largest(&frame);
        let ok = match &res {
            Ok(()) => true,
            Err(e) => {
                assert!(e.kind() == ErrorKind::ProtocolViolation);
                false
            }
        };
        core::mem::forget(res);
        if largest < next {
            assert!(ok, "an ACK of a number that was sent is never rejected");
        }
        if largest > next {
            assert!(!ok, "an ACK beyond the next number to send is a protocol violation");
        }
        // (largest == next, the next UNSENT number, is C04's subject; nothing is asserted here)
        let la_after = guard.inner.largest_acked_pktno;
        assert!(la_after == if ok && largest > la { largest } else { la }, "largest acked only grows, only on accepted frames");
        if ok {
            let idx = rec_index::<N>(off, largest);
            let (start, count) = match idx {
                Some(i) if recs[i].kind == FLIGHTING || recs[i].kind == RETRANS => (starts[i], recs[i].nframes),
                _ => (0, 0),
            };
            expect_tags(guard.on_packet_acked(largest), start, count);
            // the record is Acked now: the guard's drop may forget a longer prefix
            let mut recs2 = recs;
            if let Some(i) = idx {
                if recs2[i].kind != SKIPPED {
                    recs2[i].kind = ACKED;
                }
            }
            while dropped < N && droppable(&recs2[dropped], now) {
                dropped += 1;
            }
            kani::cover!(count > 0, "frames delivered through the guard");
        } else {
            while dropped < N && droppable(&recs[dropped], now) {
                dropped += 1;
            }
        }
        kani::cover!(!ok, "frame rejected");
        // guard dropped here: resize()
    }
    let g = arc.0.try_lock().unwrap();
    assert!(g.sent_packets.offset() == off + dropped as u64 && g.sent_packets.len() == N - dropped, "drop of the guard forgets exactly the droppable prefix");
    check_inv(&g, starts[dropped]);
    kani::cover!(dropped == N, "window emptied by the guard's drop");
    core::mem::forget(g);
    core::mem::forget(arc);
}

// ---- fast_retransmit ---------------------------------------------------------------------------
/// fast_retransmit (after its own resize): every in-flight packet below the largest acknowledged
/// number whose retransmission time has passed is declared lost and its frames are reported, in
/// order, once; nothing else is reported.
fn fast_retransmit_step<const N: usize, const N1: usize, const MAXOUT: usize>() {
    let (mut j, recs, starts, off) = any_journal::<N, N1>();
    let la = j.largest_acked_pktno;
    let now = set_any_now();
    let mut dropped = 0;
    while dropped < N && droppable(&recs[dropped], now) {
        dropped += 1;
    }
    // expected tags, in order
    let mut want = [0u64; MAXOUT];
    let mut nwant = 0usize;
    let mut fired = [false; N];
    let mut i = 0;
    while i < N {
        if i >= dropped && off + (i as u64) < la && recs[i].kind == FLIGHTING && recs[i].retran < now {
            fired[i] = true;
            let mut f = 0;
            while f < MAXF {
                if f < recs[i].nframes {
                    want[nwant] = TAG0 + (starts[i] + f) as u64;
                    nwant += 1;
                }
                f += 1;
            }
        }
        i += 1;
    }
    {
        let mut it = j.fast_retransmit();
        let mut k = 0;
        while k < MAXOUT + 1 {
            match it.next() {
                Some(t) => {
                    assert!(k < nwant, "nothing beyond the frames of timed-out in-flight packets is reported");
                    assert!(t == want[k], "frames of the timed-out packets, in order, once each");
                }
                None => assert!(k >= nwant, "every frame of a timed-out in-flight packet is reported"),
            }
            k += 1;
        }
    }
    assert!(j.sent_packets.offset() == off + dropped as u64 && j.sent_packets.len() == N - dropped);
    let mut i = 0;
    while i < N {
        if i >= dropped {
            let s = j.sent_packets.get(off + i as u64).unwrap();
            let want_kind = if fired[i] { RETRANS } else { recs[i].kind };
            assert!(kind_of(s) == want_kind && s.nframes() == recs[i].nframes, "timed-out packets become Retransmitted, others untouched");
        }
        i += 1;
    }
    check_inv(&j, starts[dropped]);
    kani::cover!(N == 0 || nwant >= 2, "at least two frames retransmitted");
    kani::cover!(N < 2 || (fired[N - 1] && dropped > 0 && starts[dropped] > 0), "retransmission behind a dropped prefix with frames");
    kani::cover!(N < 2 || (recs[1].kind == FLIGHTING && recs[1].retran < now && !fired[1] && dropped <= 1), "timed-out packet not below the largest acked: not retransmitted");
    core::mem::forget(j);
}

#[kani::proof]
#[kani::unwind(8)]
#[kani::stub(tokio::time::Instant::now, stub_now)]
#[kani::stub(tracing::callsite::DefaultCallsite::interest, stub_tr_interest)]
#[kani::stub(tracing::__macro_support::__is_enabled, stub_tr_enabled)]
#[kani::stub(tracing::Event::dispatch, stub_tr_dispatch)]
fn c10_sent_fast_retransmit_n2() {
    fast_retransmit_step::<2, 3, 4>();
}

#[kani::proof]
#[kani::unwind(8)]
#[kani::stub(tokio::time::Instant::now, stub_now)]
#[kani::stub(tracing::callsite::DefaultCallsite::interest, stub_tr_interest)]
#[kani::stub(tracing::__macro_support::__is_enabled, stub_tr_enabled)]
#[kani::stub(tracing::Event::dispatch, stub_tr_dispatch)]
fn c10_sent_fast_retransmit_n3() {
    fast_retransmit_step::<3, 4, 6>();
}

// ---- NewPacketGuard: recording a packet establishes K --------------------------------------------
/// new_packet -> record_frame x k -> (record_trivial) -> build_with_time: the packet number handed
/// out is offset+len; it is consumed iff something was recorded; the new record carries exactly
/// the k recorded frames (K preserved), so a later ack of that number reports exactly them.
#[kani::proof]
#[kani::unwind(8)]
#[kani::stub(std::sync::Mutex::lock, stub_mutex_lock)]
#[kani::stub(tokio::time::Instant::now, stub_now)]
fn c10_sent_new_packet_n2() {
    const N: usize = 2;
    let (j, recs, starts, off) = any_journal::<N, 3>();
    // PacketNumber::encode's documented precondition (pn - largest_acked < 2^31) holds: N <= 2
    kani::assume(j.largest_acked_pktno >= off);
    let _now = set_any_now();
    let arc = ArcSentJournal(Arc::new(Mutex::new(j)));
    let k: usize = kani::any();
    kani::assume(k <= 2);
    let trivial: bool = kani::any();
    {
        let mut g = arc.new_packet();
        let (pn, _enc) = g.pn();
        assert!(pn == off + N as u64, "next packet number == offset + number of records");
        let mut f = 0;
        while f < 2 {
            if f < k {
                g.record_frame(TAG0 + (starts[N] + f) as u64);
            }
            f += 1;
        }
        if trivial {
            g.record_trivial();
        }
        let (pn2, _) = g.pn();
        assert!(pn2 == pn, "pn() is stable while the packet is assembled");
        g.build_with_time(Duration::from_millis(kani::any::<u16>() as u64), Duration::from_millis(kani::any::<u16>() as u64));
    }
    let mut g = arc.0.try_lock().unwrap();
    let consumed = k > 0 || trivial;
    assert!(g.sent_packets.offset() == off);
    assert!(g.sent_packets.len() == if consumed { N + 1 } else { N }, "the number is consumed iff the packet recorded something");
    if consumed {
        let s = g.sent_packets.get(off + N as u64).unwrap();
        assert!(s.nframes() == k);
        assert!(kind_of(s) == if k > 0 { FLIGHTING } else { SKIPPED });
    }
    check_inv(&g, 0);
    let mut i = 0;
    while i < N {
        let s = g.sent_packets.get(off + i as u64).unwrap();
        assert!(kind_of(s) == recs[i].kind && s.nframes() == recs[i].nframes);
        i += 1;
    }
    // a later ACK of the new number reports exactly the frames just recorded
    expect_tags(g.on_packet_acked(off + N as u64), starts[N], k);
    kani::cover!(k == 2 && starts[N] > 0, "two frames recorded behind earlier ones");
    kani::cover!(k == 0 && trivial, "trivial packet consumes a number without frames");
    kani::cover!(!consumed, "abandoned packet: number not consumed");
    core::mem::forget(g);
    core::mem::forget(arc);
}
