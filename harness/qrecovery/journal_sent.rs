// Kani harnesses compiled inside qrecovery::journal::sent (overlay, cfg(kani) only).
// The frame queue (std VecDeque) and the VecDeque inside qbase's IndexDeque are replaced by verif_model.
//
// C10, sent-journal half: "when a peer's ACK arrives, exactly the frames that were carried in the
// newly acknowledged packets are reported as delivered, once each, and frames of packets declared
// lost are reported for retransmission."
//
// One inductive step of every SentJournal operation from an arbitrary valid pre-state:
//   * N packet records (N concrete per harness instance) of symbolic kind
//     {Skipped, Flighting, Retransmitted, Acked} with symbolic nframes 0..=2 (Skipped: 0);
//   * MEASURED: a symbolic window offset or a symbolic packet number turns every record access
//     (`IndexDeque::get_mut(pn)` -> `&mut deque[(pn - offset) as usize]`) into a read/write through a
//     pointer with a symbolic offset into the 400-byte array of 64-byte SentPktState cells, which
//     CBMC lowers bytewise (1.2 M variables for ONE record, 4.9 M for two, no verdict in 300 s for
//     three). The window offset and the acknowledged / lost packet number are therefore CONCRETE
//     per harness instance (one instance per position: below / each record / beyond the window);
//     the offset arithmetic itself (contain / get / get_mut / enumerate / advance for every 62-bit
//     offset and index) is the subject of c10_index_deque_* on u64 elements. One instance
//     (c10_sent_ack_step_sym_n1) keeps offset and packet number fully symbolic at one record;
//   * the flat frame queue holds one tag per recorded frame. Tags are the identity sequence
//     (the frame at queue position i has tag TAG0 + i), so "the frames of packet pn" is the tag
//     interval [TAG0 + start(pn), TAG0 + start(pn) + nframes(pn)) with start(pn) = sum of nframes of
//     the records in front of pn — every tag is distinct and belongs to exactly one packet;
//   * invariant K: queue.len() == sum of nframes over sent_packets (re-established by every step).
use super::*;

// ---- clock (same construction as journal_rcvd.rs; c10_clock_model_sane checks the layout) -------
#[repr(C)]
struct RawTs {
    s: i64,
    n: u32,
}

fn mk_instant(secs: u64) -> Instant {
    let std_i: std::time::Instant = unsafe { core::mem::transmute(RawTs { s: secs as i64, n: 0 }) };
    Instant::from_std(std_i)
}

const T_MAX: u64 = 1u64 << 40;

static mut NOW_SECS: u64 = 0;

/// Stub for tokio::time::Instant::now: an arbitrary instant chosen by the harness.
fn stub_now() -> Instant {
    mk_instant(unsafe { NOW_SECS })
}


// tracing stubs (NOTES-tracing.md): should_remain_after logs through tracing::trace!
fn stub_tr_interest(_c: &'static tracing::callsite::DefaultCallsite) -> tracing::subscriber::Interest {
    tracing::subscriber::Interest::never()
}
fn stub_tr_enabled(_m: &tracing::Metadata<'static>, _i: tracing::subscriber::Interest) -> bool {
    false
}
fn stub_tr_dispatch<'a: 'a>(_m: &'static tracing::Metadata<'static>, _f: &'a tracing::field::ValueSet<'_>) {}

// ---- pre-states --------------------------------------------------------------------------------
const SKIPPED: u8 = 0;
const FLIGHTING: u8 = 1;
const RETRANS: u8 = 2;
const ACKED: u8 = 3;
/// "any kind" marker for `any_journal`
const ANY: u8 = 9;

const TAG0: u64 = 1000;
const M62: u64 = 1u64 << 62;
/// frames per packet in the pre-state
const MAXF: usize = 2;
/// the concrete window offset of most instances (the first record is packet number 61)
const OFF: u64 = 61;

type J = SentJournal<u64>;

/// Harness-side description of the pre-state (small scalar arrays: cheap to index symbolically).
#[derive(Clone, Copy)]
struct Pre<const N: usize> {
    kinds: [u8; N],
    nfr: [usize; N],
    /// queue position of the first frame of record i
    starts: [usize; N],
    total: usize,
    expire: [u64; N],
    retran: [u64; N],
}

impl<const N: usize> Pre<N> {
    /// queue position of the first frame of record i (i == N: the queue length)
    fn start_of(&self, i: usize) -> usize {
        if i < N { self.starts[i] } else { self.total }
    }
    /// number of frames an ACK / a loss report of record i has to hand out
    fn live_frames(&self, i: usize) -> usize {
        if self.kinds[i] == FLIGHTING || self.kinds[i] == RETRANS { self.nfr[i] } else { 0 }
    }
}

fn kind_of(s: &SentPktState) -> u8 {
    match s {
        SentPktState::Skipped => SKIPPED,
        SentPktState::Flighting { .. } => FLIGHTING,
        SentPktState::Retransmitted { .. } => RETRANS,
        SentPktState::Acked { .. } => ACKED,
    }
}

fn any_secs(sym: bool, dflt: u64) -> u64 {
    if sym {
        let s: u64 = kani::any();
        kani::assume(s < T_MAX);
        s
    } else {
        dflt
    }
}

/// A journal with exactly N packet records satisfying K. `want[i]` fixes the kind of record i
/// (ANY: symbolic); nframes is symbolic in 0..=2 for every non-Skipped record (real histories only
/// create Flighting records with >= 1 frame; 0 is a harmless generalisation). `off`: window offset
/// (None: symbolic 62-bit). `sym_time`: expiry / retransmission instants symbolic (else constants).
fn any_journal<const N: usize>(want: [u8; N], off: Option<u64>, sym_time: bool) -> (J, Pre<N>, u64) {
    let mut j = J::default();
    let mut pre = Pre { kinds: [SKIPPED; N], nfr: [0; N], starts: [0; N], total: 0, expire: [0; N], retran: [0; N] };
    let mut i = 0;
    while i < N {
        let kind: u8 = if want[i] == ANY { kani::any() } else { want[i] };
        kani::assume(kind < 4);
        let nframes: usize = kani::any();
        kani::assume(nframes <= MAXF);
        let exp = any_secs(sym_time, 9);
        let ret = any_secs(sym_time, 7);
        let sent_time = mk_instant(5);
        let expire_time = mk_instant(exp);
        let retran_time = mk_instant(ret);
        let (st, nf) = match kind {
            SKIPPED => (SentPktState::Skipped, 0),
            FLIGHTING => (SentPktState::Flighting { nframes, sent_time, expire_time, retran_time }, nframes),
            RETRANS => (SentPktState::Retransmitted { nframes, sent_time, expire_time }, nframes),
            _ => (SentPktState::Acked { nframes, sent_time, expire_time }, nframes),
        };
        pre.kinds[i] = kind;
        pre.nfr[i] = nf;
        pre.starts[i] = pre.total;
        pre.expire[i] = exp;
        pre.retran[i] = ret;
        // pushed at offset 0: IndexDeque::push_back's limit test is decided during symbolic
        // execution; the window is moved to its position afterwards
        j.sent_packets.push_back(st).unwrap();
        let mut f = 0;
        while f < MAXF {
            if f < nf {
                j.queue.push_back(TAG0 + (pre.total + f) as u64);
            }
            f += 1;
        }
        pre.total += nf;
        i += 1;
    }
    let off = match off {
        Some(o) => o,
        None => {
            let o: u64 = kani::any();
            kani::assume(o < M62 - 16);
            o
        }
    };
    j.sent_packets.reset_offset(off);
    let la: u64 = kani::any();
    kani::assume(la <= off + N as u64); // largest acked never beyond what was sent (update_largest)
    j.largest_acked_pktno = la;
    (j, pre, off)
}

/// Post-state check ("for all records" by a symbolic probe index; MEASURED: walking the window with
/// its iterator after a symbolic number of records was dropped makes every position symbolic and
/// costs 4 M clauses, the probe costs 0.1 M):
///  * the window starts at off + dropped and holds exactly the records dropped.. of the pre-state,
///    unchanged except record `changed.0`, whose kind is now `changed.1` (same nframes);
///  * invariant K: queue.len() == sum of nframes of the kept records (== total - start(dropped),
///    because every kept record keeps its frame count);
///  * the frame queue still holds the identity tags, starting with the first frame of the first
///    kept record (alignment).
fn check_post<const N: usize>(j: &J, pre: &Pre<N>, off: u64, dropped: usize, changed: Option<(usize, u8)>) {
    assert!(dropped <= N);
    assert!(j.sent_packets.offset() == off + dropped as u64, "window offset");
    assert!(j.sent_packets.len() == N - dropped, "number of packet records");
    if N > 0 {
        let i: usize = kani::any();
        kani::assume(i < N);
        match j.sent_packets.get(off + i as u64) {
            None => assert!(i < dropped, "only the dropped prefix is gone"),
            Some(s) => {
                assert!(i >= dropped);
                let want_kind = match changed {
                    Some((c, kind)) if c == i => kind,
                    _ => pre.kinds[i],
                };
                assert!(kind_of(s) == want_kind, "record kind");
                assert!(s.nframes() == pre.nfr[i], "a record keeps its frame count (alignment of later packets)");
                match s {
                    SentPktState::Retransmitted { expire_time, .. } | SentPktState::Acked { expire_time, .. } => {
                        assert!(*expire_time == mk_instant(pre.expire[i]), "expiry time carried over");
                    }
                    _ => {}
                }
            }
        }
    }
    let first_pos = pre.start_of(dropped);
    assert!(j.queue.len() == pre.total - first_pos, "K: queue.len() == sum of nframes");
    let p: usize = kani::any();
    if p < j.queue.len() {
        assert!(*j.queue.get(p).unwrap() == TAG0 + (first_pos + p) as u64, "frame queue content / alignment");
    }
}

/// Drains `it` (at most MAXF + 1 items) and asserts it yields exactly the tags
/// TAG0+start .. TAG0+start+count, in order, once each.
fn expect_tags(mut it: impl Iterator<Item = u64>, start: usize, count: usize) {
    let mut k = 0;
    while k < MAXF + 1 {
        match it.next() {
            Some(t) => {
                assert!(k < count, "no frame beyond those of the packet is reported");
                assert!(t == TAG0 + (start + k) as u64, "exactly the frames carried in that packet, in order");
            }
            None => {
                assert!(k >= count, "every frame of the packet is reported");
            }
        }
        k += 1;
    }
}

// ---- on_packet_acked ---------------------------------------------------------------------------
/// ACK of record I of an N-record window.
fn ack_in<const N: usize, const I: usize>() {
    let (mut j, pre, off) = any_journal::<N>([ANY; N], Some(OFF), false);
    let la = j.largest_acked_pktno;
    let pn = off + I as u64;
    let start = pre.starts[I];
    let count = pre.live_frames(I);
    let kind = pre.kinds[I];

    expect_tags(j.on_packet_acked(pn), start, count);

    // an in-flight / retransmitted packet becomes Acked; Skipped stays Skipped; nothing else moves
    let want = if kind == SKIPPED { SKIPPED } else { ACKED };
    check_post(&j, &pre, off, 0, Some((I, want)));
    assert!(j.largest_acked_pktno == la);

    // once each: acknowledging the same number again reports nothing,
    // and a loss report after the ack reports nothing either
    expect_tags(j.on_packet_acked(pn), start, 0);
    expect_tags(j.may_loss_packet(pn), start, 0);
    check_post(&j, &pre, off, 0, Some((I, want)));

    kani::cover!(count == 2 && (I == 0 || start > 1), "two frames delivered (behind earlier frames)");
    kani::cover!(kind == ACKED && pre.nfr[I] > 0, "duplicate ack of an acked packet");
    kani::cover!(kind == RETRANS && count > 0, "ack after the packet was declared lost");
    kani::cover!(kind == SKIPPED, "ack of a skipped number");
    core::mem::forget(j);
}

/// ACK / loss report of numbers outside the window: nothing reported, nothing changed.
fn ack_loss_outside<const N: usize>() {
    let (mut j, pre, off) = any_journal::<N>([ANY; N], Some(OFF), false);
    expect_tags(j.on_packet_acked(off - 1), 0, 0);
    expect_tags(j.on_packet_acked(off + N as u64), 0, 0);
    expect_tags(j.on_packet_acked(off + N as u64 + 7), 0, 0);
    expect_tags(j.may_loss_packet(off - 1), 0, 0);
    expect_tags(j.may_loss_packet(off + N as u64), 0, 0);
    expect_tags(j.on_packet_acked(0), 0, 0);
    check_post(&j, &pre, off, 0, None);
    kani::cover!(pre.total == 2 * N, "full frame queue");
    core::mem::forget(j);
}

macro_rules! sent_harness {
    ($name:ident, $body:expr) => {
        #[kani::proof]
        #[kani::unwind(8)]
        fn $name() {
            $body;
        }
    };
}

sent_harness!(c10_sent_ack_step_n1_p0, ack_in::<1, 0>());
sent_harness!(c10_sent_ack_step_n2_p1, ack_in::<2, 1>());
sent_harness!(c10_sent_ack_step_n3_p0, ack_in::<3, 0>());
sent_harness!(c10_sent_ack_step_n3_p1, ack_in::<3, 1>());
sent_harness!(c10_sent_ack_step_n3_p2, ack_in::<3, 2>());
sent_harness!(c10_sent_outside_n0, ack_loss_outside::<0>());
sent_harness!(c10_sent_outside_n3, ack_loss_outside::<3>());

/// One record, symbolic 62-bit window offset and symbolic packet number (inside, below, beyond).
#[kani::proof]
#[kani::unwind(8)]
fn c10_sent_ack_step_sym_n1() {
    let (mut j, pre, off) = any_journal::<1>([ANY], None, false);
    let pn: u64 = kani::any();
    let inside = pn == off;
    let (start, count) = if inside { (0, pre.live_frames(0)) } else { (0, 0) };
    expect_tags(j.on_packet_acked(pn), start, count);
    let want = if pre.kinds[0] == SKIPPED { SKIPPED } else { ACKED };
    check_post(&j, &pre, off, 0, if inside { Some((0, want)) } else { None });
    expect_tags(j.on_packet_acked(pn), start, 0);
    kani::cover!(inside && count == 2, "two frames delivered");
    kani::cover!(pn < off, "below the window");
    kani::cover!(pn > off, "beyond the window");
    core::mem::forget(j);
}

// ---- may_loss_packet ---------------------------------------------------------------------------
fn loss_in<const N: usize, const I: usize>() {
    let (mut j, pre, off) = any_journal::<N>([ANY; N], Some(OFF), false);
    let la = j.largest_acked_pktno;
    let pn = off + I as u64;
    let start = pre.starts[I];
    let count = pre.live_frames(I);
    let kind = pre.kinds[I];

    expect_tags(j.may_loss_packet(pn), start, count);

    // in-flight becomes Retransmitted; Acked / Skipped / Retransmitted stay
    let want = if kind == FLIGHTING { RETRANS } else { kind };
    check_post(&j, &pre, off, 0, Some((I, want)));
    assert!(j.largest_acked_pktno == la);

    // a late ACK of a packet declared lost still reports its frames as delivered — exactly once
    expect_tags(j.on_packet_acked(pn), start, count);
    expect_tags(j.on_packet_acked(pn), start, 0);
    let want2 = if kind == SKIPPED { SKIPPED } else { ACKED };
    check_post(&j, &pre, off, 0, Some((I, want2)));

    kani::cover!(count == 2 && kind == FLIGHTING && (I == 0 || start > 1), "two frames of an in-flight packet reported lost");
    kani::cover!(kind == ACKED && pre.nfr[I] > 0, "loss report for an acked packet: nothing");
    kani::cover!(kind == RETRANS && count > 0, "repeated loss report: frames offered again");
    core::mem::forget(j);
}

sent_harness!(c10_sent_loss_step_n1_p0, loss_in::<1, 0>());
sent_harness!(c10_sent_loss_step_n3_p0, loss_in::<3, 0>());
sent_harness!(c10_sent_loss_step_n3_p1, loss_in::<3, 1>());
sent_harness!(c10_sent_loss_step_n3_p2, loss_in::<3, 2>());

// ---- resize (expiry; runs when the SentRotateGuard is dropped) -----------------------------------
/// May record i be forgotten at time `now`? (Skipped / Acked: yes; in flight: never; declared lost:
/// once its expire time has passed.)
fn droppable<const N: usize>(pre: &Pre<N>, i: usize, now: u64) -> bool {
    match pre.kinds[i] {
        SKIPPED | ACKED => true,
        FLIGHTING => false,
        _ => !(pre.expire[i] > now),
    }
}

fn droppable_prefix<const N: usize>(pre: &Pre<N>, now: u64) -> usize {
    let mut n = 0;
    while n < N && droppable(pre, n, now) {
        n += 1;
    }
    n
}

fn set_any_now() -> u64 {
    let s: u64 = kani::any();
    kani::assume(s < T_MAX);
    unsafe { NOW_SECS = s };
    s
}

fn resize_step<const N: usize>() {
    let (mut j, pre, off) = any_journal::<N>([ANY; N], Some(OFF), true);
    let now = set_any_now();
    let expect = droppable_prefix(&pre, now);

    j.resize();

    // exactly the droppable prefix of packet records is removed, and exactly their frames leave
    // the queue (check_post: the first remaining frame is the first frame of the first kept packet)
    check_post(&j, &pre, off, expect, None);

    kani::cover!(N == 0 || (expect == N && pre.total > 2), "whole window (with frames) dropped");
    kani::cover!(N < 2 || (expect == 1 && pre.kinds[0] == RETRANS && pre.nfr[0] > 0 && pre.nfr[1] > 0), "expired lost packet dropped, next one kept");
    kani::cover!(N == 0 || (expect == 0 && pre.kinds[0] == RETRANS), "lost packet not yet expired is kept");
    core::mem::forget(j);
}

macro_rules! sent_harness_clock {
    ($name:ident, $body:expr) => {
        #[kani::proof]
        #[kani::unwind(8)]
        #[kani::stub(tokio::time::Instant::now, stub_now)]
        #[kani::stub(tracing::callsite::DefaultCallsite::interest, stub_tr_interest)]
        #[kani::stub(tracing::__macro_support::__is_enabled, stub_tr_enabled)]
        #[kani::stub(tracing::Event::dispatch, stub_tr_dispatch)]
        fn $name() {
            $body;
        }
    };
}

sent_harness_clock!(c10_sent_resize_n0, resize_step::<0>());
sent_harness_clock!(c10_sent_resize_n2, resize_step::<2>());
sent_harness_clock!(c10_sent_resize_n3, resize_step::<3>());

/// resize, then ACKs: the frame-offset arithmetic (sum of nframes in front of pn) stays aligned
/// with the queue after a prefix (with a symbolic number of frames) was dropped.
/// Shape: [Acked, Flighting, any] -> exactly the first record is dropped (kinds concrete so that
/// the new window offset stays concrete, see the note at the top).
fn resize_then_ack() {
    const N: usize = 3;
    let (mut j, pre, off) = any_journal::<N>([ACKED, FLIGHTING, ANY], Some(OFF), true);
    let now = set_any_now();
    j.resize();
    check_post(&j, &pre, off, 1, None);
    // tags are absolute: a frame keeps its tag when the queue is drained in front of it
    expect_tags(j.on_packet_acked(off + 2), pre.starts[2], pre.live_frames(2));
    expect_tags(j.on_packet_acked(off + 1), pre.starts[1], pre.nfr[1]);
    // the dropped number: nothing
    expect_tags(j.on_packet_acked(off), 0, 0);
    let k2 = if pre.kinds[2] == SKIPPED { SKIPPED } else { ACKED };
    assert!(kind_of(j.sent_packets.get(off + 2).unwrap()) == k2);
    assert!(kind_of(j.sent_packets.get(off + 1).unwrap()) == ACKED);
    // a second rotation now forgets the acked packets as well
    j.resize();
    let mut pre2 = pre;
    pre2.kinds[1] = ACKED;
    pre2.kinds[2] = k2;
    check_post(&j, &pre2, off, droppable_prefix(&pre2, now), None);
    kani::cover!(pre.nfr[0] == 2 && pre.nfr[1] == 1 && pre.live_frames(2) == 2, "ack behind a dropped packet with frames");
    core::mem::forget(j);
}

sent_harness_clock!(c10_sent_resize_then_ack_n3, resize_then_ack());

// ---- fast_retransmit ---------------------------------------------------------------------------
/// fast_retransmit (after its own resize): every in-flight packet below the largest acknowledged
/// number whose retransmission time has passed is declared lost and its frames are reported, in
/// order, once; nothing else is reported.
fn fast_retransmit_step<const N: usize, const MAXOUT: usize>() {
    let (mut j, pre, off) = any_journal::<N>([ANY; N], Some(OFF), true);
    let la = j.largest_acked_pktno;
    let now = set_any_now();
    let dropped = droppable_prefix(&pre, now);
    // expected tags, in order
    let mut want = [0u64; MAXOUT];
    let mut nwant = 0usize;
    let mut fired = [false; N];
    let mut i = 0;
    while i < N {
        if i >= dropped && off + (i as u64) < la && pre.kinds[i] == FLIGHTING && pre.retran[i] < now {
            fired[i] = true;
            let mut f = 0;
            while f < MAXF {
                if f < pre.nfr[i] {
                    want[nwant] = TAG0 + (pre.starts[i] + f) as u64;
                    nwant += 1;
                }
                f += 1;
            }
        }
        i += 1;
    }
    {
        let mut it = j.fast_retransmit();
        let mut k = 0;
        while k < MAXOUT + 1 {
            match it.next() {
                Some(t) => {
                    assert!(k < nwant, "nothing beyond the frames of timed-out in-flight packets is reported");
                    assert!(t == want[k], "frames of the timed-out packets, in order, once each");
                }
                None => assert!(k >= nwant, "every frame of a timed-out in-flight packet is reported"),
            }
            k += 1;
        }
    }
    // timed-out packets become Retransmitted, others untouched
    let mut post = pre;
    let mut i = 0;
    while i < N {
        if fired[i] {
            post.kinds[i] = RETRANS;
        }
        i += 1;
    }
    check_post(&j, &post, off, dropped, None);
    kani::cover!(N == 0 || nwant >= 2, "at least two frames retransmitted");
    kani::cover!(N < 2 || (fired[N - 1] && dropped > 0 && pre.start_of(dropped) > 0), "retransmission behind a dropped prefix with frames");
    kani::cover!(N < 2 || (pre.kinds[1] == FLIGHTING && pre.retran[1] < now && !fired[1] && dropped <= 1), "timed-out packet not below the largest acked: not retransmitted");
    core::mem::forget(j);
}

// MEASURED: two records do not finish in 1500 s (the iterator chain enumerate_mut / take_while /
// scan / filter / flat_map over a window whose length became symbolic in resize); one record does.
sent_harness_clock!(c10_sent_fast_retransmit_n1, fast_retransmit_step::<1, 2>());

// ---- the public wrappers -----------------------------------------------------------------------
fn stub_mutex_lock<T: ?Sized>(m: &std::sync::Mutex<T>) -> std::sync::LockResult<std::sync::MutexGuard<'_, T>> {
    match m.try_lock() {
        Ok(g) => Ok(g),
        Err(std::sync::TryLockError::Poisoned(p)) => Err(p),
        Err(std::sync::TryLockError::WouldBlock) => panic!("self-deadlock: mutex already held"),
    }
}

/// ArcSentJournal::rotate -> SentRotateGuard::update_largest: an ACK whose Largest Acknowledged was
/// sent is never rejected, one beyond the next number to send is a ProtocolViolation, largest_acked
/// only grows and only on accepted frames; then on_packet_acked through the guard.
/// (MEASURED: the full guard life cycle incl. the resize in Drop over 2 symbolic records behind
/// Arc<Mutex> does not finish in 1500 s; resize is checked on the bare journal in c10_sent_resize_*,
/// Drop only forwards to it. The guard is forgotten here so that Drop does not run.)
#[kani::proof]
#[kani::unwind(8)]
#[kani::stub(std::sync::Mutex::lock, stub_mutex_lock)]
fn c10_sent_update_largest_n1() {
    let (j, pre, off) = any_journal::<1>([FLIGHTING], Some(OFF), false);
    let la = j.largest_acked_pktno;
    let arc = ArcSentJournal(Arc::new(Mutex::new(j)));
    let largest: u64 = kani::any();
    kani::assume(largest < M62);
    let frame = AckFrame::new(
        qbase::varint::VarInt::from_u64(largest).unwrap(),
        qbase::varint::VarInt::from_u32(0),
        qbase::varint::VarInt::from_u32(0),
        Vec::new(),
        None,
    );
    let next = off + 1; // next packet number to be sent
    let mut guard = arc.rotate();
    let res = guard.update_largest(&frame);
    let ok = match &res {
        Ok(()) => true,
        Err(e) => {
            assert!(e.kind() == ErrorKind::ProtocolViolation);
            false
        }
    };
    core::mem::forget(res);
    if largest < next {
        assert!(ok, "an ACK of a number that was sent is never rejected");
    }
    if largest > next {
        assert!(!ok, "an ACK beyond the next number to send is a protocol violation");
    }
    // (largest == next, the next UNSENT number, is C04's subject; nothing is asserted here)
    let la_after = guard.inner.largest_acked_pktno;
    assert!(la_after == if ok && largest > la { largest } else { la }, "largest acked only grows, only on accepted frames");
    // the guard forwards to the journal
    expect_tags(guard.on_packet_acked(off), 0, pre.nfr[0]);
    expect_tags(guard.may_loss_packet(off), 0, 0);
    kani::cover!(!ok, "frame rejected");
    kani::cover!(ok && largest > la && pre.nfr[0] == 2, "largest acked advanced, two frames delivered through the guard");
    kani::cover!(ok && largest < la, "stale ACK: largest acked unchanged");
    core::mem::forget(guard);
    core::mem::forget(arc);
}

/// new_packet -> record_frame x k -> (record_trivial) -> build_with_time: the packet number handed
/// out is offset+len; it is consumed iff something was recorded; the new record carries exactly
/// the k recorded frames (K established), so a later ack of that number reports exactly them.
#[kani::proof]
#[kani::unwind(8)]
#[kani::stub(std::sync::Mutex::lock, stub_mutex_lock)]
#[kani::stub(tokio::time::Instant::now, stub_now)]
fn c10_sent_new_packet_n2() {
    const N: usize = 2;
    let (j, pre, off) = any_journal::<N>([ANY; N], Some(OFF), false);
    // PacketNumber::encode's documented precondition (pn - largest_acked < 2^31)
    kani::assume(j.largest_acked_pktno >= off);
    unsafe { NOW_SECS = 100 };
    let arc = ArcSentJournal(Arc::new(Mutex::new(j)));
    let k: usize = kani::any();
    kani::assume(k <= 2);
    let trivial: bool = kani::any();
    // (concrete timeouts: Duration::from_millis of a symbolic value costs two 64-bit divisions)
    let retran_ms: u16 = 300;
    let expire_ms: u16 = 3000;
    {
        let mut g = arc.new_packet();
        let (pn, _enc) = g.pn();
        assert!(pn == off + N as u64, "next packet number == offset + number of records");
        let mut f = 0;
        while f < 2 {
            if f < k {
                g.record_frame(TAG0 + (pre.total + f) as u64);
            }
            f += 1;
        }
        if trivial {
            g.record_trivial();
        }
        let (pn2, _) = g.pn();
        assert!(pn2 == pn, "pn() is stable while the packet is assembled");
        g.build_with_time(Duration::from_millis(retran_ms as u64), Duration::from_millis(expire_ms as u64));
    }
    let mut g = arc.0.try_lock().unwrap();
    let consumed = k > 0 || trivial;
    assert!(g.sent_packets.offset() == off);
    assert!(g.sent_packets.len() == if consumed { N + 1 } else { N }, "the number is consumed iff the packet recorded something");
    let i: usize = kani::any();
    kani::assume(i <= N);
    match g.sent_packets.get(off + i as u64) {
        None => assert!(i == N && !consumed),
        Some(s) => {
            if i < N {
                assert!(kind_of(s) == pre.kinds[i] && s.nframes() == pre.nfr[i], "earlier records untouched");
            } else {
                assert!(consumed);
                assert!(s.nframes() == k, "the new record counts exactly the recorded frames");
                assert!(kind_of(s) == if k > 0 { FLIGHTING } else { SKIPPED });
                if let SentPktState::Flighting { sent_time, retran_time, expire_time, .. } = s {
                    assert!(*sent_time == mk_instant(100));
                    assert!(*retran_time >= *sent_time && *expire_time >= *sent_time);
                }
            }
        }
    }
    assert!(g.queue.len() == pre.total + k, "K established: queue.len() == sum of nframes");
    let p: usize = kani::any();
    if p < g.queue.len() {
        assert!(*g.queue.get(p).unwrap() == TAG0 + p as u64, "frame queue content");
    }
    // a later ACK of the new number reports exactly the frames just recorded
    expect_tags(g.on_packet_acked(off + N as u64), pre.total, k);
    kani::cover!(k == 2 && pre.total > 0, "two frames recorded behind earlier ones");
    kani::cover!(k == 0 && trivial, "trivial packet consumes a number without frames");
    kani::cover!(!consumed, "abandoned packet: number not consumed");
    core::mem::forget(g);
    core::mem::forget(arc);
}
