// Helper compiled inside qrecovery::streams::io (overlay, cfg(kani) only). NO proof fn here.
// Property C11, stream-set level: `ArcOutputGuard::revise_max_stream_data` (the walk over the table
// of sending halves after the handshake) is a method of the guard type, whose field is private to
// this module. The table inside `ArcOutput` (Arc<Mutex<Result<..>>> on the heap) is out of reach for
// CBMC (measured: insert + one walk over ONE entry does not finish in 1500 s), the same table in a
// Mutex on the STACK is fine; this constructor wraps a lock guard of such a mutex.
use super::*;

impl<'a, TX> ArcOutputGuard<'a, TX> {
    pub(crate) fn c11s_from(g: MutexGuard<'a, Result<Output<TX>, QuicError>>) -> Self {
        ArcOutputGuard(g)
    }
}

impl<TX> Output<TX> {
    pub(crate) fn c11s_new() -> Self {
        Output::new()
    }
}

// Replacements for `ArcOutput::guard` / `ArcInput::guard` in the stream-creation harnesses: the real
// ones clone the stored connection error on the Err path (`Err(e) => Err(e.clone())`: Cow<str>, boxed
// sources ...), which CBMC walks although no connection error exists in those harnesses. These
// versions ASSERT that the table is alive (a dead table is reported as a failed check, not ignored).
pub(crate) fn c11s_stub_output_guard<TX>(o: &ArcOutput<TX>) -> Result<ArcOutputGuard<'_, TX>, QuicError> {
    let streams = o.streams();
    assert!(streams.is_ok(), "no connection error in this harness");
    Ok(ArcOutputGuard(streams))
}
pub(crate) fn c11s_stub_input_guard<TX>(i: &ArcInput<TX>) -> Result<ArcInputGuard<'_, TX>, QuicError> {
    let guard = i.0.lock().unwrap();
    assert!(guard.is_ok(), "no connection error in this harness");
    Ok(ArcInputGuard { inner: guard })
}
