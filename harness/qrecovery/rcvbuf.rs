// Kani harnesses compiled inside qrecovery::recv::rcvbuf (overlay, cfg(kani) only).
// Property C08: one inductive step of RecvBuf::{recv, try_read, try_next, available, is_readable}
// from an arbitrary valid pre-state (representation invariant I, see DESIGN.md §4 C08).
//
// Stream content is the identity sequence over a 16-byte window starting at a symbolic base
// offset B: the byte at stream offset x is SEQ[x - B]. Every fragment handed to `recv` is a
// slice of that content ("fragments are slices of one underlying byte sequence").
use super::*;

const W: usize = 16;
static SEQ: [u8; W] = [0, 1, 2, 3, 4, 5, 6, 7, 8, 9, 10, 11, 12, 13, 14, 15];

/// core's slice-index panic path builds `fmt::Arguments` at run time; the stub keeps the panic
/// (still reported as a failed check) and drops the message.
fn stub_slice_index_fail(_start: usize, _end: usize, _len: usize) -> ! {
    panic!("slice index out of range")
}

fn content(base: u64, from: u64, to: u64) -> Bytes {
    Bytes::from_static(&SEQ).slice((from - base) as usize..(to - base) as usize)
}

/// Arbitrary valid RecvBuf with exactly N stored segments inside [base, base+W).
fn any_buf<const N: usize>(base: u64) -> RecvBuf {
    let nread: u64 = kani::any();
    kani::assume(nread >= base && nread <= base + W as u64);
    let mut buf = RecvBuf::default();
    buf.nread = nread;
    let mut prev_end = nread;
    let mut i = 0;
    while i < N {
        let off: u64 = kani::any();
        let end: u64 = kani::any();
        // sorted, non-empty, pairwise disjoint (adjacency allowed), not before nread
        kani::assume(off >= prev_end && off < end && end <= base + W as u64);
        buf.segments.push_back(Segment::new_with_data(off, content(base, off, end)));
        prev_end = end;
        i += 1;
    }
    // largest_offset: the highest offset ever seen; at least the end of the last segment
    // and at least nread (everything read was received first).
    let largest: u64 = kani::any();
    kani::assume(largest >= prev_end && largest <= base + W as u64);
    buf.largest_offset = largest;
    buf
}

fn any_base() -> u64 {
    let base: u64 = kani::any();
    kani::assume(base <= (1u64 << 62) - 2 * W as u64);
    base
}

/// Is stream offset x stored in some segment? Also checks the stored byte's value.
fn covered(buf: &RecvBuf, base: u64, x: u64) -> bool {
    let mut found = false;
    let mut i = 0;
    while i < buf.segments.len() {
        let seg = &buf.segments[i];
        if seg.offset <= x && x < seg.end() {
            assert!(!found, "a byte is stored in at most one segment");
            found = true;
            let b = seg.data[(x - seg.offset) as usize];
            assert!(b == SEQ[(x - base) as usize], "stored byte has its original value");
        }
        i += 1;
    }
    found
}

/// Representation invariant I.
fn check_inv(buf: &RecvBuf) {
    let mut prev_end = buf.nread;
    let mut i = 0;
    while i < buf.segments.len() {
        let seg = &buf.segments[i];
        assert!(seg.offset >= prev_end, "segments sorted, disjoint, not before nread");
        assert!(seg.data.len() > 0, "no empty segment stored");
        prev_end = seg.end();
        i += 1;
    }
    assert!(buf.largest_offset >= prev_end, "largest_offset covers every stored segment");
}

fn recv_step<const N: usize>(base: u64) {
    let mut buf = any_buf::<N>(base);
    let off: u64 = kani::any();
    let len: u64 = kani::any();
    kani::assume(off >= base && off <= base + W as u64 && len <= W as u64 && off + len <= base + W as u64);
    let x: u64 = kani::any();
    kani::assume(x >= base && x < base + W as u64);

    let nread = buf.nread;
    let largest_before = buf.largest_offset;
    let cov_before = covered(&buf, base, x);
    let avail_before = buf.available();

    let newly = buf.recv(off, content(base, off, off + len));

    check_inv(&buf);
    assert!(buf.nread == nread, "recv does not consume");
    let cov_after = covered(&buf, base, x);
    let in_new = x >= off && x < off + len && x >= nread;
    assert!(cov_after == (cov_before || in_new), "exactly the new unread bytes become stored");
    // flow-control accounting: returns telescope to the highest offset seen
    let expect_largest = if len > 0 && off + len > largest_before && off + len > nread {
        off + len
    } else {
        largest_before
    };
    assert!(buf.largest_offset == expect_largest, "largest_offset == max(previous, end of fragment)");
    assert!(newly == buf.largest_offset - largest_before, "newly covered amount == growth of largest offset");
    assert!(buf.available() >= avail_before, "contiguous readable prefix never shrinks on recv");
    // (for the empty pre-state there is no existing data: the witness is trivially satisfied)
    kani::cover!(N == 0 || (newly > 0 && cov_before), "recv extended past existing data");
    kani::cover!(in_new && !cov_before, "probe byte newly stored");
    kani::cover!(len > 0 && newly == 0, "fully duplicate / old fragment");
    core::mem::forget(buf); // drop glue of 8 Option<Segment> cells is irrelevant to the property
}

#[kani::proof]
#[kani::unwind(8)]
#[kani::stub(core::slice::index::slice_index_fail, stub_slice_index_fail)]
fn c08_recv_step_n0() {
    recv_step::<0>(any_base()); // symbolic 62-bit base offset
}

#[kani::proof]
#[kani::unwind(8)]
#[kani::stub(core::slice::index::slice_index_fail, stub_slice_index_fail)]
fn c08_recv_step_n1() {
    recv_step::<1>(0);
}

#[kani::proof]
#[kani::unwind(8)]
#[kani::stub(core::slice::index::slice_index_fail, stub_slice_index_fail)]
fn c08_recv_step_n2() {
    recv_step::<2>(0);
}

#[kani::proof]
#[kani::unwind(8)]
#[kani::stub(core::slice::index::slice_index_fail, stub_slice_index_fail)]
fn c08_recv_step_n3() {
    recv_step::<3>(0);
}

/// A recording BufMut with fixed capacity (the reader's buffer).
struct Sink {
    buf: [u8; W],
    pos: usize,
    cap: usize,
}

unsafe impl BufMut for Sink {
    fn remaining_mut(&self) -> usize {
        self.cap - self.pos
    }
    unsafe fn advance_mut(&mut self, cnt: usize) {
        self.pos += cnt;
    }
    fn chunk_mut(&mut self) -> &mut bytes::buf::UninitSlice {
        bytes::buf::UninitSlice::new(&mut self.buf[self.pos..self.cap])
    }
}

fn read_step<const N: usize>(base: u64) {
    let mut buf = any_buf::<N>(base);
    let cap: usize = kani::any();
    kani::assume(cap <= 8);
    let nread = buf.nread;
    let avail = buf.available();
    let readable = buf.is_readable();
    assert!(readable == (avail > 0), "is_readable <=> some contiguous byte is available");
    // model of the contiguous prefix: every x in [nread, nread+avail) is covered
    let x: u64 = kani::any();
    kani::assume(x >= base && x < base + W as u64);
    if x >= nread && x < nread + avail {
        assert!(covered(&buf, base, x));
    }
    if avail < (base + W as u64 - nread) {
        // the byte right after the prefix is missing
        assert!(!covered(&buf, base, nread + avail));
    }
    let largest = buf.largest_offset;

    let mut sink = Sink { buf: [0xff; W], pos: 0, cap };
    let n = buf.try_read(&mut sink);

    check_inv(&buf);
    let expect = if (cap as u64) < avail { cap as u64 } else { avail };
    assert!(n as u64 == expect, "reads min(capacity, contiguous available)");
    assert!(sink.pos == n);
    assert!(buf.nread == nread + n as u64);
    assert!(buf.largest_offset == largest, "reading does not change the highest offset seen");
    assert!(buf.available() == avail - n as u64);
    let k: usize = kani::any();
    kani::assume(k < W);
    if k < n {
        assert!(sink.buf[k] == SEQ[(nread - base) as usize + k], "bytes read are exactly the next bytes of the stream, in order");
    }
    // bytes not read stay stored
    if x >= nread + n as u64 {
        let before = x < nread + avail; // only evaluate for the contiguous part to keep it cheap
        if before {
            assert!(covered(&buf, base, x));
        }
    }
    kani::cover!(n > 0 && (n as u64) < avail, "partial read of the available prefix");
    kani::cover!(n > 0 && n as u64 == avail && (cap as u64) > avail, "read drained the prefix");
    core::mem::forget(buf);
}

#[kani::proof]
#[kani::unwind(8)]
#[kani::stub(core::slice::index::slice_index_fail, stub_slice_index_fail)]
fn c08_read_step_n1() {
    read_step::<1>(0);
}

#[kani::proof]
#[kani::unwind(8)]
#[kani::stub(core::slice::index::slice_index_fail, stub_slice_index_fail)]
fn c08_read_step_n2() {
    read_step::<2>(0);
}

#[kani::proof]
#[kani::unwind(8)]
#[kani::stub(core::slice::index::slice_index_fail, stub_slice_index_fail)]
fn c08_read_step_n3() {
    read_step::<3>(0);
}

fn next_step<const N: usize>(base: u64) {
    let mut buf = any_buf::<N>(base);
    let nread = buf.nread;
    let readable = buf.is_readable();
    let got = buf.try_next();
    check_inv(&buf);
    match got {
        None => {
            assert!(!readable);
            assert!(buf.nread == nread);
        }
        Some(data) => {
            assert!(readable);
            assert!(data.len() > 0);
            assert!(buf.nread == nread + data.len() as u64);
            let k: usize = kani::any();
            kani::assume(k < data.len());
            assert!(data[k] == SEQ[(nread - base) as usize + k], "try_next yields the next bytes of the stream");
        }
    }
    kani::cover!(readable, "try_next returned data");
    core::mem::forget(buf);
}

#[kani::proof]
#[kani::unwind(8)]
#[kani::stub(core::slice::index::slice_index_fail, stub_slice_index_fail)]
fn c08_next_step_n2() {
    next_step::<2>(any_base());
}
