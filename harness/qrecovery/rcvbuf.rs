// Kani harnesses compiled inside qrecovery::recv::rcvbuf (overlay, cfg(kani) only).
// Property C08: one inductive step of RecvBuf::{recv, try_read, try_next, available, is_readable}
// from an arbitrary valid pre-state (representation invariant I, see DESIGN.md §4 C08).
//
// Stream content is the identity sequence over a 16-byte window starting at a symbolic base
// offset B: the byte at stream offset x is SEQ[x - B]. Every fragment handed to `recv` is a
// slice of that content ("fragments are slices of one underlying byte sequence").
use super::*;

const W: usize = 16;
static SEQ: [u8; W] = [0, 1, 2, 3, 4, 5, 6, 7, 8, 9, 10, 11, 12, 13, 14, 15];

/// core's slice-index panic path builds `fmt::Arguments` at run time; the stub keeps the panic
/// (still reported as a failed check) and drops the message.
fn stub_slice_index_fail(_start: usize, _end: usize, _len: usize) -> ! {
    panic!("slice index out of range")
}

fn content(base: u64, from: u64, to: u64) -> Bytes {
    Bytes::from_static(&SEQ).slice((from - base) as usize..(to - base) as usize)
}

/// Arbitrary valid RecvBuf with exactly N stored segments inside [base, base+W).
fn any_buf<const N: usize>(base: u64) -> RecvBuf {
    let nread: u64 = kani::any();
    kani::assume(nread >= base && nread <= base + W as u64);
    let mut buf = RecvBuf::default();
    buf.nread = nread;
    let mut prev_end = nread;
    let mut i = 0;
    while i < N {
        let off: u64 = kani::any();
        let end: u64 = kani::any();
        // sorted, non-empty, pairwise disjoint (adjacency allowed), not before nread
        kani::assume(off >= prev_end && off < end && end <= base + W as u64);
        buf.segments.push_back(Segment::new_with_data(off, content(base, off, end)));
        prev_end = end;
        i += 1;
    }
    // largest_offset: the highest offset ever seen; at least the end of the last segment
    // and at least nread (everything read was received first).
    let largest: u64 = kani::any();
    kani::assume(largest >= prev_end && largest <= base + W as u64);
    buf.largest_offset = largest;
    buf
}

fn any_base() -> u64 {
    let base: u64 = kani::any();
    kani::assume(base <= (1u64 << 62) - 2 * W as u64);
    base
}

/// Is stream offset x stored in some segment? Also checks the stored byte's value.
fn covered(buf: &RecvBuf, base: u64, x: u64) -> bool {
    let mut found = false;
    let mut i = 0;
    while i < buf.segments.len() {
        let seg = &buf.segments[i];
        if seg.offset <= x && x < seg.end() {
            assert!(!found, "a byte is stored in at most one segment");
            found = true;
            let b = seg.data[(x - seg.offset) as usize];
            assert!(b == SEQ[(x - base) as usize], "stored byte has its original value");
        }
        i += 1;
    }
    found
}

/// Representation invariant I.
fn check_inv(buf: &RecvBuf) {
    let mut prev_end = buf.nread;
    let mut i = 0;
    while i < buf.segments.len() {
        let seg = &buf.segments[i];
        assert!(seg.offset >= prev_end, "segments sorted, disjoint, not before nread");
        assert!(seg.data.len() > 0, "no empty segment stored");
        prev_end = seg.end();
        i += 1;
    }
    assert!(buf.largest_offset >= prev_end, "largest_offset covers every stored segment");
}

fn recv_step<const N: usize>(base: u64) {
    let mut buf = any_buf::<N>(base);
    let off: u64 = kani::any();
    let len: u64 = kani::any();
    kani::assume(off >= base && off <= base + W as u64 && len <= W as u64 && off + len <= base + W as u64);
    let x: u64 = kani::any();
    kani::assume(x >= base && x < base + W as u64);

    let nread = buf.nread;
    let largest_before = buf.largest_offset;
    let cov_before = covered(&buf, base, x);
    let avail_before = buf.available();

    let newly = buf.recv(off, content(base, off, off + len));

    check_inv(&buf);
    assert!(buf.nread == nread, "recv does not consume");
    let cov_after = covered(&buf, base, x);
    let in_new = x >= off && x < off + len && x >= nread;
    assert!(cov_after == (cov_before || in_new), "exactly the new unread bytes become stored");
    // flow-control accounting: returns telescope to the highest offset seen
    let expect_largest = if len > 0 && off + len > largest_before && off + len > nread {
        off + len
    } else {
        largest_before
    };
    assert!(buf.largest_offset == expect_largest, "largest_offset == max(previous, end of fragment)");
    assert!(newly == buf.largest_offset - largest_before, "newly covered amount == growth of largest offset");
    assert!(buf.available() >= avail_before, "contiguous readable prefix never shrinks on recv");
    // (for the empty pre-state there is no existing data: the witness is trivially satisfied)
    kani::cover!(N == 0 || (newly > 0 && cov_before), "recv extended past existing data");
    kani::cover!(in_new && !cov_before, "probe byte newly stored");
    kani::cover!(len > 0 && newly == 0, "fully duplicate / old fragment");
    core::mem::forget(buf); // drop glue of 8 Option<Segment> cells is irrelevant to the property
}

#[kani::proof]
#[kani::unwind(8)]
#[kani::stub(core::slice::index::slice_index_fail, stub_slice_index_fail)]
fn c08_recv_step_n0() {
    recv_step::<0>(any_base()); // symbolic 62-bit base offset
}

#[kani::proof]
#[kani::unwind(8)]
#[kani::stub(core::slice::index::slice_index_fail, stub_slice_index_fail)]
fn c08_recv_step_n1() {
    recv_step::<1>(0);
}

#[kani::proof]
#[kani::unwind(8)]
#[kani::stub(core::slice::index::slice_index_fail, stub_slice_index_fail)]
fn c08_recv_step_n2() {
    recv_step::<2>(0);
}

#[kani::proof]
#[kani::unwind(8)]
#[kani::stub(core::slice::index::slice_index_fail, stub_slice_index_fail)]
fn c08_recv_step_n3() {
    recv_step::<3>(0);
}

/// A recording BufMut with fixed capacity (the reader's buffer).
struct Sink {
    buf: [u8; W],
    pos: usize,
    cap: usize,
}

unsafe impl BufMut for Sink {
    fn remaining_mut(&self) -> usize {
        self.cap - self.pos
    }
    unsafe fn advance_mut(&mut self, cnt: usize) {
        self.pos += cnt;
    }
    fn chunk_mut(&mut self) -> &mut bytes::buf::UninitSlice {
        bytes::buf::UninitSlice::new(&mut self.buf[self.pos..self.cap])
    }
}

fn read_step<const N: usize>(base: u64) {
    let mut buf = any_buf::<N>(base);
    let cap: usize = kani::any();
    kani::assume(cap <= 8);
    let nread = buf.nread;
    let avail = buf.available();
    let readable = buf.is_readable();
    assert!(readable == (avail > 0), "is_readable <=> some contiguous byte is available");
    // model of the contiguous prefix: every x in [nread, nread+avail) is covered
    let x: u64 = kani::any();
    kani::assume(x >= base && x < base + W as u64);
    if x >= nread && x < nread + avail {
        assert!(covered(&buf, base, x));
    }
    if avail < (base + W as u64 - nread) {
        // the byte right after the prefix is missing
        assert!(!covered(&buf, base, nread + avail));
    }
    let largest = buf.largest_offset;

    let mut sink = Sink { buf: [0xff; W], pos: 0, cap };
    let n = buf.try_read(&mut sink);

    check_inv(&buf);
    let expect = if (cap as u64) < avail { cap as u64 } else { avail };
    assert!(n as u64 == expect, "reads min(capacity, contiguous available)");
    assert!(sink.pos == n);
    assert!(buf.nread == nread + n as u64);
    assert!(buf.largest_offset == largest, "reading does not change the highest offset seen");
    assert!(buf.available() == avail - n as u64);
    let k: usize = kani::any();
    kani::assume(k < W);
    if k < n {
        assert!(sink.buf[k] == SEQ[(nread - base) as usize + k], "bytes read are exactly the next bytes of the stream, in order");
    }
    // bytes not read stay stored
    if x >= nread + n as u64 {
        let before = x < nread + avail; // only evaluate for the contiguous part to keep it cheap
        if before {
            assert!(covered(&buf, base, x));
        }
    }
    kani::cover!(n > 0 && (n as u64) < avail, "partial read of the available prefix");
    kani::cover!(n > 0 && n as u64 == avail && (cap as u64) > avail, "read drained the prefix");
    core::mem::forget(buf);
}

#[kani::proof]
#[kani::unwind(8)]
#[kani::stub(core::slice::index::slice_index_fail, stub_slice_index_fail)]
fn c08_read_step_n1() {
    read_step::<1>(0);
}

#[kani::proof]
#[kani::unwind(8)]
#[kani::stub(core::slice::index::slice_index_fail, stub_slice_index_fail)]
fn c08_read_step_n2() {
    read_step::<2>(0);
}

#[kani::proof]
#[kani::unwind(8)]
#[kani::stub(core::slice::index::slice_index_fail, stub_slice_index_fail)]
fn c08_read_step_n3() {
    read_step::<3>(0);
}

// ------------------------------------------------------------------------------------------------
// try_read with a RECORDING reader (no byte copy): `try_read` is generic over `BufMut` and only uses
// remaining_mut / has_remaining_mut / put(Bytes). The recording sink notes, for every chunk it is
// handed, WHERE the chunk lives (address) and how long it is. Since every stored fragment is a
// zero-copy slice of the one underlying static sequence SEQ, "the bytes handed to the reader are
// exactly the next contiguous bytes of the stream, each once, in order" is the statement that the
// k-th chunk starts at &SEQ[position reached so far] — checked by address, without copying or
// comparing bytes. (MEASURED: the byte-copying Sink above costs 957 s / 112 s with per-loop
// bounds for one stored segment; the recording sink needs no buffer, so the reader's capacity can
// be ANY usize.) The byte-copying variant (c08_read_step_n1) stays in the thorough tier.
struct RecSink {
    cap: usize,
    used: usize,
    nput: usize,
    ptr: [*const u8; 3],
    len: [usize; 3],
}

unsafe impl BufMut for RecSink {
    fn remaining_mut(&self) -> usize {
        self.cap - self.used
    }
    unsafe fn advance_mut(&mut self, _cnt: usize) {
        unreachable!("recording sink: advance_mut is not used by try_read")
    }
    fn chunk_mut(&mut self) -> &mut bytes::buf::UninitSlice {
        unreachable!("recording sink: chunk_mut is not used by try_read")
    }
    fn put<T: Buf>(&mut self, mut src: T)
    where
        Self: Sized,
    {
        // BufMut::put's contract: panics if there is not enough room
        assert!(self.remaining_mut() >= src.remaining(), "put: reader buffer overrun");
        let (p, l) = {
            let s = src.chunk();
            (s.as_ptr(), s.len())
        };
        assert!(l == src.remaining(), "put: source is one contiguous chunk");
        assert!(self.nput < 3, "recording sink: more chunks than slots");
        let mut k = 0;
        while k < 3 {
            if k == self.nput {
                self.ptr[k] = p;
                self.len[k] = l;
            }
            k += 1;
        }
        self.nput += 1;
        self.used += l;
        src.advance(l);
    }
}

/// After `try_read`: the recorded chunks are exactly SEQ[nread-base .. nread-base+n), in order.
fn check_chunks<const N: usize>(sink: &RecSink, base: u64, nread: u64, n: usize) {
    assert!(sink.used == n, "the reader's fill level advanced by the returned count");
    assert!(sink.nput <= N, "at most one chunk per stored segment");
    let mut pos = nread;
    let mut k = 0;
    while k < N {
        if k < sink.nput {
            assert!(sink.len[k] > 0, "no empty chunk is handed over");
            let want = unsafe { SEQ.as_ptr().add((pos - base) as usize) };
            assert!(sink.ptr[k] == want, "chunk k is the slice of the stream that starts where chunk k-1 ended");
            pos += sink.len[k] as u64;
        }
        k += 1;
    }
    assert!(pos == nread + n as u64, "chunk lengths add up to the returned count");
}

fn read_rec_step<const N: usize>(base: u64) {
    let mut buf = any_buf::<N>(base);
    let cap: usize = kani::any(); // ANY reader capacity
    let nread = buf.nread;
    let avail = buf.available();
    let readable = buf.is_readable();
    assert!(readable == (avail > 0), "is_readable <=> some contiguous byte is available");
    assert!(avail <= base + W as u64 - nread);
    // model of the contiguous prefix: every x in [nread, nread+avail) is stored, the byte right
    // after it is not
    let x: u64 = kani::any();
    kani::assume(x >= base && x < base + W as u64);
    let cov_before = covered(&buf, base, x);
    if x >= nread && x < nread + avail {
        assert!(cov_before);
    }
    if x == nread + avail {
        assert!(!cov_before, "the prefix reported by available() is maximal");
    }
    let largest = buf.largest_offset;

    let mut sink = RecSink { cap, used: 0, nput: 0, ptr: [core::ptr::null(); 3], len: [0; 3] };
    let n = buf.try_read(&mut sink);

    check_inv(&buf);
    let expect = if (cap as u64) < avail { cap as u64 } else { avail };
    assert!(n as u64 == expect, "reads min(capacity, contiguous available): never past a gap, never less than possible");
    assert!(buf.nread == nread + n as u64, "read position advances by the count");
    assert!(buf.largest_offset == largest, "reading does not change the highest offset seen");
    check_chunks::<N>(&sink, base, nread, n);
    assert!(buf.available() == avail - n as u64);
    // each byte once: what was handed over is gone, everything else is still stored
    let cov_after = covered(&buf, base, x);
    let was_read = x >= nread && x < nread + n as u64;
    assert!(cov_after == (cov_before && !was_read), "exactly the bytes handed over leave the buffer");
    kani::cover!(n > 0 && (n as u64) < avail, "partial read of the available prefix");
    kani::cover!(n > 0 && n as u64 == avail && (cap as u64) > avail, "read drained the prefix");
    kani::cover!(N < 2 || sink.nput == 2, "read spans two adjacent segments");
    kani::cover!(N < 2 || (n as u64 == avail && buf.segments.len() == 1), "read stops at a gap");
    kani::cover!(cap == 0 && avail > 0, "zero-capacity reader");
    core::mem::forget(buf);
}

#[kani::proof]
#[kani::unwind(8)]
#[kani::stub(core::slice::index::slice_index_fail, stub_slice_index_fail)]
fn c08_read_rec_step_n0() {
    // nothing stored: nothing is readable whatever the capacity
    let base = any_base();
    let mut buf = any_buf::<0>(base);
    let nread = buf.nread;
    assert!(buf.available() == 0 && !buf.is_readable());
    let mut sink = RecSink { cap: kani::any(), used: 0, nput: 0, ptr: [core::ptr::null(); 3], len: [0; 3] };
    let n = buf.try_read(&mut sink);
    assert!(n == 0 && sink.nput == 0 && buf.nread == nread);
    assert!(buf.try_next().is_none());
    kani::cover!(nread > base && sink.cap > 0, "everything received so far was read");
    core::mem::forget(buf);
}

#[kani::proof]
#[kani::unwind(8)]
#[kani::stub(core::slice::index::slice_index_fail, stub_slice_index_fail)]
fn c08_read_rec_step_n1() {
    read_rec_step::<1>(0);
}

#[kani::proof]
#[kani::unwind(8)]
#[kani::stub(core::slice::index::slice_index_fail, stub_slice_index_fail)]
fn c08_read_rec_step_n2() {
    read_rec_step::<2>(0);
}

#[kani::proof]
#[kani::unwind(8)]
#[kani::stub(core::slice::index::slice_index_fail, stub_slice_index_fail)]
fn c08_read_rec_step_n3() {
    read_rec_step::<3>(0);
}

/// Two steps at the smallest shape: one stored segment, `recv` of an arbitrary fragment, then
/// `try_read` with ANY capacity. The reader gets exactly the contiguous prefix of
/// (stored bytes) U (unread part of the fragment), by address, and nothing beyond the first gap.
fn recv_then_read<const N: usize>() {
    let base = 0u64;
    let mut buf = any_buf::<N>(base);
    let off: u64 = kani::any();
    let len: u64 = kani::any();
    kani::assume(off <= W as u64 && len <= W as u64 && off + len <= W as u64);
    let nread = buf.nread;
    let x: u64 = kani::any();
    kani::assume(x < W as u64);
    let cov_before = covered(&buf, base, x);
    let have = cov_before || (x >= off && x < off + len && x >= nread);

    buf.recv(off, content(base, off, off + len));

    let cap: usize = kani::any();
    let mut sink = RecSink { cap, used: 0, nput: 0, ptr: [core::ptr::null(); 3], len: [0; 3] };
    let n = buf.try_read(&mut sink);

    check_inv(&buf);
    assert!(n <= cap && buf.nread == nread + n as u64);
    assert!(sink.used == n && sink.nput <= 3);
    // chunks: consecutive slices of SEQ starting at nread
    let mut pos = nread;
    let mut k = 0;
    while k < 3 {
        if k < sink.nput {
            assert!(sink.len[k] > 0);
            assert!(sink.ptr[k] == unsafe { SEQ.as_ptr().add((pos - base) as usize) }, "bytes handed over are the next bytes of the stream");
            pos += sink.len[k] as u64;
        }
        k += 1;
    }
    assert!(pos == nread + n as u64);
    // exactly the contiguous prefix that has fully arrived: every byte handed over had arrived ...
    if x >= nread && x < nread + n as u64 {
        assert!(have, "a byte that never arrived is never handed to the reader");
    }
    // ... and the read stops only at the capacity or at the first missing byte
    if n < cap && x == nread + n as u64 {
        assert!(!have, "the read did not stop before the first gap");
    }
    // bytes that arrived but were not read are still stored
    if x >= nread + n as u64 {
        assert!(covered(&buf, base, x) == have);
    }
    kani::cover!(N == 0 || (sink.nput == 2 && !cov_before && x >= nread && x < nread + n as u64), "fragment filled the hole in front of the stored segment and both were read");
    kani::cover!(n > 0 && n < cap && nread + (n as u64) < W as u64, "read stopped at a gap");
    core::mem::forget(buf);
}

#[kani::proof]
#[kani::unwind(8)]
#[kani::stub(core::slice::index::slice_index_fail, stub_slice_index_fail)]
fn c08_recv_then_read_n0() {
    recv_then_read::<0>();
}

#[kani::proof]
#[kani::unwind(8)]
#[kani::stub(core::slice::index::slice_index_fail, stub_slice_index_fail)]
fn c08_recv_then_read_n1() {
    recv_then_read::<1>();
}

fn next_step<const N: usize>(base: u64) {
    let mut buf = any_buf::<N>(base);
    let nread = buf.nread;
    let readable = buf.is_readable();
    let got = buf.try_next();
    check_inv(&buf);
    match got {
        None => {
            assert!(!readable);
            assert!(buf.nread == nread);
        }
        Some(data) => {
            assert!(readable);
            assert!(data.len() > 0);
            assert!(buf.nread == nread + data.len() as u64);
            let k: usize = kani::any();
            kani::assume(k < data.len());
            assert!(data[k] == SEQ[(nread - base) as usize + k], "try_next yields the next bytes of the stream");
        }
    }
    kani::cover!(readable, "try_next returned data");
    core::mem::forget(buf);
}

#[kani::proof]
#[kani::unwind(8)]
#[kani::stub(core::slice::index::slice_index_fail, stub_slice_index_fail)]
fn c08_next_step_n2() {
    next_step::<2>(any_base());
}
