// Kani harnesses compiled inside qrecovery::send::sndbuf (overlay, cfg(kani) only).
// Property C01, part (a): the REAL send buffer (SendBuf / BufMap) and the REAL receive buffer
// (RecvBuf) put together, from their initial states.
//
//   * c01_link_c1      one frame end to end: the application writes T <= 4 bytes of the identity
//                      sequence (byte i has value i), `pick_up` (symbolic congestion allowance, flow
//                      limit and peer window) emits a frame, the frame reaches `RecvBuf::recv`, the
//                      reader (`try_read`, symbolic capacity, twice) gets exactly the written bytes.
//   * c01_recv_k*      receiver half: K ARBITRARY frames of the stream (any order, overlaps,
//                      duplicates — a superset of what any loss / reorder / duplicate / retransmit
//                      schedule can deliver) one after the other into a fresh RecvBuf, then the reader.
//   * c01_lemma_*      the recursion-free twin of `BufMap::may_lost_from` (used where `may_loss` runs
//                      inside a larger harness) equals the real recursive helper.
//
// "For all bytes" is expressed with ONE symbolic probe offset x fixed before the run; ghost
// variables follow what happened to byte x (its colour per the documented semantics of the send
// buffer, whether a frame containing it was delivered).
use bytes::BufMut;

use super::*;
use crate::recv::RecvBuf;

const W: u64 = 4;
static SEQ: [u8; 8] = [0, 1, 2, 3, 4, 5, 6, 7];
const LIM: u64 = (1 << 62) - 1;

fn content(from: u64, to: u64) -> Bytes {
    Bytes::from_static(&SEQ).slice(from as usize..to as usize)
}

/// core's slice-index panic path builds `fmt::Arguments` at run time; the stub keeps the panic
/// (still reported as a failed check) and drops the message.
pub(crate) fn stub_slice_index_fail(_start: usize, _end: usize, _len: usize) -> ! {
    panic!("slice index out of range")
}

/// The reader's buffer: a recording BufMut with `cap` bytes of space. It does not copy bytes: the
/// stream content is `Bytes::from_static(&SEQ)` sliced (never copied) by both buffers, so the
/// byte at stream offset y lives at address SEQ + y, and a `put` of a Bytes is recorded as
/// (stream offset of its first byte, recognised by ADDRESS; length). No byte arrays at symbolic
/// offsets, no memcpy with symbolic length (NOTES-tracing.md §"BufMut targets").
struct Sink {
    cap: usize,
    pos: usize,
    /// every put so far started at the address of the next expected stream byte
    in_order: bool,
    /// stream offset the next put has to start at
    next: u64,
    puts: u32,
    dummy: [u8; 1],
}

impl Sink {
    fn new(cap: usize, first: u64) -> Self {
        Sink { cap, pos: 0, in_order: true, next: first, puts: 0, dummy: [0] }
    }
}

unsafe impl BufMut for Sink {
    fn remaining_mut(&self) -> usize {
        self.cap - self.pos
    }
    unsafe fn advance_mut(&mut self, _cnt: usize) {
        panic!("raw chunk access is not used by RecvBuf::try_read");
    }
    fn chunk_mut(&mut self) -> &mut bytes::buf::UninitSlice {
        panic!("raw chunk access is not used by RecvBuf::try_read");
        #[allow(unreachable_code)]
        bytes::buf::UninitSlice::new(&mut self.dummy[..])
    }
    /// Same contract as the provided method (panics if the source does not fit); records instead of copying.
    fn put<T: bytes::Buf>(&mut self, src: T)
    where
        Self: Sized,
    {
        let n = src.remaining();
        assert!(n <= self.cap - self.pos, "advance out of bounds");
        if n > 0 {
            let s = src.chunk();
            assert!(s.len() == n, "a Bytes is one contiguous chunk");
            if !core::ptr::eq(s.as_ptr(), SEQ.as_ptr().wrapping_add(self.next as usize)) {
                self.in_order = false;
            }
            self.next += n as u64;
            self.pos += n;
            self.puts += 1;
        }
        core::mem::forget(src);
    }
}

/// Is `d` exactly the bytes SEQ[from..from+d.len()) (by address: content is never copied)?
fn is_content(d: &Bytes, from: u64) -> bool {
    core::ptr::eq(d.as_ptr(), SEQ.as_ptr().wrapping_add(from as usize))
}

/// Ghost colour of the probe byte (documented semantics of the send buffer).
#[derive(Clone, Copy, PartialEq, Eq)]
enum G {
    Never,
    Flight,
    Lost,
    Acked,
}

/// Real colour of byte x < written (bytes beyond the map were never sent).
fn real_color(b: &SendBuf, x: u64) -> G {
    if x >= b.state.size() {
        return G::Never;
    }
    let mut c = Color::Recved;
    let n = b.state.0.len();
    let mut i = 0;
    while i < n {
        let s = b.state.0[i];
        if s.offset() <= x {
            c = s.color();
        }
        i += 1;
    }
    match c {
        Color::Pending => G::Never,
        Color::Flighting => G::Flight,
        Color::Lost => G::Lost,
        Color::Recved => G::Acked,
    }
}


// ------------------------------------------------------------------------------------------------
// The recursive helper `BufMap::may_lost_from`.
//
// `may_loss` hands the part of a lost range that lies behind an acked hole to the RECURSIVE helper
// `may_lost_from` (the recursive call sits inside a loop). With a symbolic start index and a
// symbolic number of boundaries CBMC has to expand unwind^depth call sites (C09 measured: does
// not finish even at one boundary). The composition harnesses therefore run the real `may_loss`
// with the helper replaced by the recursion-free twin below, and the lemma harnesses
// `c01_lemma_lost_from_eq_n*` prove, for the REAL recursive helper called with every concrete
// start index, that the twin produces exactly the same boundary sequence (not just the same
// colouring) from every map that satisfies the helper's precondition — which the twin asserts at
// every call site inside the composition.

/// Single-pass, recursion-free twin of `BufMap::may_lost_from`. It walks the boundaries once
/// with a concrete loop index and rebuilds the sequence; a "level" is one invocation of the
/// recursive original (the stretch between two acked boundaries): its first converted boundary is
/// kept (as Lost), the following ones are merged into it, a Flighting remainder is split off at `end`.
/// Precondition (asserted): idx_start <= len; the boundary before idx_start is Recved and starts
/// below `end`; no Pending byte below `end`.
pub(crate) fn ref_lost_from(m: &mut BufMap, idx_start: usize, end: u64) {
    const MAXN: usize = verif_model::CAP; // (the container model cannot hold more boundaries)
    let n = m.0.len();
    assert!(n <= MAXN, "twin: shape within the twin's capacity");
    assert!(idx_start <= n, "may_lost_from: start index within the map");
    if idx_start > 0 {
        let p = m.0[idx_start - 1];
        assert!(p.color() == Color::Recved && p.offset() < end, "may_lost_from: called right after an acked boundary below the end of the lost range");
    }
    assert!(end <= m.sent(), "may_lost_from: no Pending byte below the end of the lost range");
    const BEFORE: u8 = 0; // boundaries in front of idx_start: copied
    const SCAN: u8 = 1; // boundaries below `end`: converted
    const EQRUN: u8 = 2; // a boundary == end was met: swallow the Lost boundaries that follow
    const DONE: u8 = 3; // copy the rest
    let mut out = [0u64; MAXN + 1];
    let mut cnt: usize = 0;
    macro_rules! push {
        ($v:expr) => {{
            let v: State = $v;
            assert!(cnt <= MAXN);
            out[cnt] = v.0;
            cnt += 1;
        }};
    }
    let mut mode = if idx_start == 0 { SCAN } else { BEFORE };
    let mut kept_first = false; // the current level already has its (kept) first Lost boundary
    let mut pre_color = Color::Recved;
    let mut i = 0;
    while i < MAXN {
        if i < n {
            let s = m.0[i];
            if mode == BEFORE {
                push!(s);
                if i + 1 == idx_start {
                    mode = SCAN;
                }
            } else {
                if mode == SCAN {
                    match s.offset().cmp(&end) {
                        Ordering::Less => {
                            pre_color = s.color();
                            if s.color() == Color::Recved {
                                push!(s); // acked hole: the next boundary starts a new level
                                kept_first = false;
                            } else if !kept_first {
                                push!(State::encode(s.offset(), Color::Lost));
                                kept_first = true;
                            }
                        }
                        Ordering::Equal => mode = EQRUN,
                        Ordering::Greater => {
                            if pre_color == Color::Flighting {
                                push!(State::encode(end, Color::Flighting));
                            }
                            mode = DONE;
                        }
                    }
                }
                if mode == EQRUN {
                    if s.color() == Color::Lost {
                        if !kept_first {
                            push!(s);
                            kept_first = true;
                        }
                    } else {
                        mode = DONE;
                    }
                }
                if mode == DONE {
                    push!(s);
                }
            }
        }
        i += 1;
    }
    if mode == SCAN && end < m.size() && pre_color == Color::Flighting {
        push!(State::encode(end, Color::Flighting));
    }
    assert!(cnt <= n + 1, "twin: at most one boundary added");
    // write back
    let mut j = 0;
    while j < MAXN {
        if j < n && j < cnt {
            m.0.get_mut(j).unwrap().0 = out[j];
        }
        j += 1;
    }
    if cnt > n {
        m.0.push_back(State(out[n]));
    } else {
        m.0.truncate(cnt);
    }
}

/// Lemma: real recursive helper == twin, boundary for boundary, from every map with N boundaries
/// (strictly increasing offsets < size, Pending only last) satisfying the helper's precondition
/// for the concrete start index I. Colours in front of I-1 are arbitrary (may_loss may have
/// repainted them); behind I neighbours differ in colour except Lost|Lost (invariant J of C09).
fn lost_from_eq<const N: usize, const I: usize>() {
    let size: u64 = kani::any();
    // N == CAP: the map is full, so only streams of <= W bytes (where no boundary can be added) are covered
    kani::assume(size <= if N < verif_model::CAP { LIM } else { W });
    let mut a = BufMap::default();
    let mut b = BufMap::default();
    let mut pre = [State(0); N];
    let mut i = 0;
    while i < N {
        let s = State(kani::any());
        kani::assume(s.offset() < size);
        if i > 0 {
            let p = pre[i - 1];
            kani::assume(p.offset() < s.offset() && p.color() != Color::Pending);
            if i >= I {
                kani::assume(p.color() != s.color() || p.color() == Color::Lost);
            }
        }
        pre[i] = s;
        a.0.push_back(s);
        b.0.push_back(s);
        i += 1;
    }
    a.1 = size;
    b.1 = size;
    let end: u64 = kani::any();
    kani::assume(end <= a.sent());
    if I > 0 {
        kani::assume(pre[I - 1].color() == Color::Recved && pre[I - 1].offset() < end);
    }

    a.may_lost_from(I, end);
    ref_lost_from(&mut b, I, end);

    assert!(a.1 == b.1, "twin: same size");
    assert!(a.0.len() == b.0.len(), "twin: same number of boundaries");
    let mut i = 0;
    while i < N + 1 {
        if i < a.0.len() {
            assert!(a.0[i] == b.0[i], "twin: same boundary");
        }
        i += 1;
    }
    kani::cover!(I >= N || N == verif_model::CAP || a.0.len() == N + 1, "split at the end of the lost range");
    kani::cover!(I + 2 > N || a.0.len() < N, "lost segments merged");
}

macro_rules! lost_from_eq_harness {
    ($name:ident, $n:literal, [$($i:literal),*]) => {
        #[kani::proof]
        #[kani::unwind(6)]
        fn $name() {
            $( lost_from_eq::<$n, $i>(); )*
        }
    };
}

lost_from_eq_harness!(c01_lemma_lost_from_eq_n1, 1, [0, 1]);
lost_from_eq_harness!(c01_lemma_lost_from_eq_n2, 2, [0, 1, 2]);
lost_from_eq_harness!(c01_lemma_lost_from_eq_n4, 4, [0, 1, 2, 3, 4]);

// ------------------------------------------------------------------------------------------------
// The composition

struct World<const P: usize> {
    snd: SendBuf,
    rcv: RecvBuf,
    written: u64,
    /// probe offset, x < written
    x: u64,
    g: G,
    /// a frame containing x was handed to the receiver
    delivered_x: bool,
    /// picked frames
    has: [bool; P],
    start: [u64; P],
    end: [u64; P],
    inx: [bool; P],
    copies: [u8; P],
    acked: [bool; P],
    lost: [bool; P],
}

impl<const P: usize> World<P> {
    /// The application wrote `written` <= W bytes in CHUNKS (1 or 2) non-empty chunks; the peer's
    /// stream window is symbolic (possibly smaller than what was written, but not 0).
    fn new<const CHUNKS: usize>() -> Self {
        let t: u64 = kani::any();
        kani::assume(t >= CHUNKS as u64 && t <= W);
        let max_data: u64 = kani::any();
        kani::assume(max_data >= 1 && max_data <= LIM);
        let mut snd = SendBuf::with_capacity(max_data);
        if CHUNKS == 2 {
            let a: u64 = kani::any();
            kani::assume(a >= 1 && a < t);
            snd.write(content(0, a));
            snd.write(content(a, t));
        } else {
            snd.write(content(0, t));
        }
        assert!(snd.written() == t && snd.sent() == 0 && !snd.is_all_rcvd());
        let x: u64 = kani::any();
        kani::assume(x < t);
        let mut w = World {
            snd,
            rcv: RecvBuf::default(),
            written: t,
            x,
            g: G::Never,
            delivered_x: false,
            has: [false; P],
            start: [0; P],
            end: [0; P],
            inx: [false; P],
            copies: [0; P],
            acked: [false; P],
            lost: [false; P],
        };
        w.shape::<1, CHUNKS>();
        w
    }

    /// Shape of THIS harness instance at this point of the scenario: the send buffer's map has
    /// exactly KS boundaries and its store KD chunks. The assumption selects the instance's case
    /// (the instance family enumerates the cases; every instance has a reachability witness);
    /// the containers are then rebuilt element by element so that their lengths are concrete
    /// values for the symbolic execution of the next step (contents stay symbolic).
    fn shape<const KS: usize, const KD: usize>(&mut self) {
        kani::assume(self.snd.state.0.len() == KS && self.snd.data.len() == KD);
        let mut st = BufMap::default();
        let mut i = 0;
        while i < KS {
            st.0.push_back(self.snd.state.0[i]);
            i += 1;
        }
        st.1 = self.snd.state.1;
        core::mem::forget(core::mem::replace(&mut self.snd.state, st));
        let mut data: VecDeque<Bytes> = VecDeque::new();
        let mut i = 0;
        while i < KD {
            data.push_back(self.snd.data[i].clone());
            i += 1;
        }
        core::mem::forget(core::mem::replace(&mut self.snd.data, data));
    }

    /// The colour the send buffer records for the probe byte is the one its history implies.
    fn check_color(&self) {
        assert!(real_color(&self.snd, self.x) == self.g, "send buffer colour of every byte == what its history implies");
    }

    /// One pick_up with symbolic congestion allowance and flow limit; the frame goes into slot r.
    fn pick(&mut self, r: usize) -> bool {
        let allow: Option<usize> = kani::any();
        let flow_limit: usize = kani::any();
        if let Some(a) = allow {
            kani::assume(a >= 1 && a as u64 <= LIM);
        }
        let max_data = self.snd.max_data();
        let res = self.snd.pick_up(|_| allow, flow_limit);
        let ok = match res {
            Ok((range, fresh, chunks)) => {
                assert!(range.start < range.end, "a picked frame carries data");
                assert!(range.end <= self.written && range.end <= max_data, "only written bytes inside the peer's window are sent");
                let total = range.end - range.start;
                if let Some(a) = allow {
                    assert!(total <= a as u64, "congestion allowance respected");
                }
                if fresh {
                    assert!(total <= flow_limit as u64, "fresh data respects the connection flow limit");
                }
                // the bytes handed to the packet are exactly SEQ[range]: consecutive slices of the content
                let mut pos: u64 = 0;
                let mut i = 0;
                while i < 2 {
                    if i < chunks.len() {
                        let d = &chunks[i];
                        assert!(d.len() > 0 && is_content(d, range.start + pos), "frame payload == the bytes written at these offsets, in order");
                        pos += d.len() as u64;
                    }
                    i += 1;
                }
                assert!(chunks.len() <= 2 && pos == total, "frame payload covers the whole range");
                core::mem::forget(chunks);
                assert!(range.end <= self.snd.sent(), "an emitted frame only covers bytes now recorded as sent (precondition of ack / loss feedback)");
                let inx = self.x >= range.start && self.x < range.end;
                if inx {
                    assert!(self.g == if fresh { G::Never } else { G::Lost }, "only never-sent or lost bytes are (re)sent; fresh iff never sent");
                    self.g = G::Flight;
                }
                self.has[r] = true;
                self.start[r] = range.start;
                self.end[r] = range.end;
                self.inx[r] = inx;
                true
            }
            Err(_) => false,
        };
        self.check_color();
        ok
    }

    /// A copy of frame j reaches the receiver.
    fn deliver(&mut self, j: usize) {
        assert!(self.has[j]);
        let (s, e) = (self.start[j], self.end[j]);
        let largest = self.rcv.largest_offset();
        let nread = self.rcv.nread();
        let fresh = self.rcv.recv(s, content(s, e));
        assert!(self.rcv.nread() == nread);
        assert!(self.rcv.largest_offset() == if e > largest { e } else { largest }, "highest offset seen");
        assert!(fresh == self.rcv.largest_offset() - largest, "flow-control accounting telescopes");
        self.copies[j] += 1;
        if self.inx[j] {
            self.delivered_x = true;
        }
    }

    /// What the reader sees: exactly the contiguous prefix of delivered bytes, with original
    /// values, in order, each byte once.
    fn reader(&mut self) {
        let x = self.x;
        let nread0 = self.rcv.nread();
        assert!(nread0 == 0);
        let avail = self.rcv.available();
        assert!(avail <= self.written);
        if x < avail {
            assert!(self.delivered_x, "nothing becomes readable that was not delivered");
        }
        if x == avail {
            assert!(!self.delivered_x, "once every byte of a prefix was delivered, the prefix is readable");
        }
        assert!(self.rcv.is_readable() == (avail > 0));
        let cap: usize = kani::any();
        kani::assume(cap <= 8);
        let mut sink = Sink::new(cap, 0);
        let n = self.rcv.try_read(&mut sink);
        let expect = if (cap as u64) < avail { cap as u64 } else { avail };
        assert!(n as u64 == expect && sink.pos == n, "reads min(capacity, contiguous delivered prefix)");
        assert!(self.rcv.nread() == n as u64);
        assert!(sink.in_order && sink.next == n as u64, "bytes read == bytes written, same order, nothing missing / duplicated / altered");
        assert!(self.rcv.available() == avail - n as u64, "the unread rest stays readable");
        // a second read continues where the first stopped (no byte twice)
        let mut sink2 = Sink::new(8, n as u64);
        let n2 = self.rcv.try_read(&mut sink2);
        assert!(n2 as u64 == avail - n as u64);
        assert!(sink2.in_order && sink2.next == avail, "second read continues at the next byte");
        kani::cover!(n > 0 && (n as u64) < avail, "partial read");
    }
}

// ------------------------------------------------------------------------------------------------
// Full chain from the initial state. MEASURED LIMIT: every additional SendBuf / RecvBuf operation
// on a state whose shape is symbolic costs minutes and GBs (CBMC treats the Bytes-carrying
// containers byte-wise); chains of 5+ operations (loss -> retransmission split at another
// boundary -> late duplicate -> ack -> reader) exceeded 10 GB or 25 min on the shared machine even
// with per-instance concrete shapes and are not registered. What is registered: the one-frame
// chain below, the receiver half over K arbitrary frames, and (C09 / C08) every single step from an
// arbitrary valid state.

/// LINK: one frame end to end. write -> pick_up A (symbolic limits) -> A reaches the receiver ->
/// reader. The frame the real sender emits is accepted by the real receiver at the right place
/// and the reader gets exactly the written bytes [0, |A|).
fn scenario_link<const CHUNKS: usize>() {
    let mut w = World::<1>::new::<CHUNKS>();
    kani::assume(w.pick(0));
    assert!(w.start[0] == 0, "fresh data is offered from the start of the stream");
    w.deliver(0);
    assert!(w.rcv.available() == w.end[0], "everything delivered is readable");
    w.reader();
    kani::cover!(w.end[0] == w.written, "whole content in one frame");
    kani::cover!(w.end[0] < w.written, "a prefix");
    core::mem::forget(w);
}

macro_rules! scenario_harness {
    ($name:ident, $call:expr) => {
        #[kani::proof]
        #[kani::unwind(6)]
        #[kani::stub(core::slice::index::slice_index_fail, stub_slice_index_fail)]
        #[kani::stub(BufMap::may_lost_from, ref_lost_from)]
        fn $name() {
            $call;
        }
    };
}

scenario_harness!(c01_link_c1, scenario_link::<1>());

// ------------------------------------------------------------------------------------------------
// Receiver half with SYMBOLIC shapes: K arbitrary frames (range inside the written data, payload
// == SEQ[range]) in arbitrary order with arbitrary overlaps / duplicates — a superset of whatever
// the sender emits under any fault schedule — delivered one after the other to a fresh RecvBuf,
// then the reader.

fn recv_half<const K: usize>() {
    let t: u64 = kani::any();
    kani::assume(t >= 1 && t <= W);
    let x: u64 = kani::any();
    kani::assume(x < t);
    let mut rcv = RecvBuf::default();
    let mut delivered_x = false;
    let mut k = 0;
    while k < K {
        let s: u64 = kani::any();
        let e: u64 = kani::any();
        kani::assume(s < e && e <= t);
        let largest = rcv.largest_offset();
        let fresh = rcv.recv(s, content(s, e));
        assert!(rcv.nread() == 0);
        assert!(rcv.largest_offset() == if e > largest { e } else { largest }, "highest offset seen");
        assert!(fresh == rcv.largest_offset() - largest, "flow-control accounting telescopes");
        if x >= s && x < e {
            delivered_x = true;
        }
        k += 1;
    }
    let mut w = World::<0> {
        snd: SendBuf::default(),
        rcv,
        written: t,
        x,
        g: G::Never,
        delivered_x,
        has: [],
        start: [],
        end: [],
        inx: [],
        copies: [],
        acked: [],
        lost: [],
    };
    w.reader();
    kani::cover!(w.rcv.nread() == t, "whole content read");
    core::mem::forget(w);
}

macro_rules! recv_harness {
    ($name:ident, $k:literal) => {
        #[kani::proof]
        #[kani::unwind(6)]
        #[kani::stub(core::slice::index::slice_index_fail, stub_slice_index_fail)]
        fn $name() {
            recv_half::<$k>();
        }
    };
}

recv_harness!(c01_recv_k1, 1);
recv_harness!(c01_recv_k2, 2);
