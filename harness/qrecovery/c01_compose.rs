// Kani harnesses compiled inside qrecovery::send::sndbuf (overlay, cfg(kani) only).
// Property C01, part (a): composition of the REAL send buffer (SendBuf / BufMap) and the REAL
// receive buffer (RecvBuf) under a symbolic fault schedule.
//
// World: an application writes T <= W bytes of the identity sequence (byte i has value i) in at
// most two chunks into a fresh SendBuf whose peer window (max_data) is symbolic. Then P rounds:
//     pick_up (symbolic congestion allowance and flow limit)
//     D[r] delivery slots   — each delivers a copy of ANY frame picked so far (symbolic index), or
//                             nothing, to RecvBuf::recv; at most 2 copies per frame
//     F[r] feedback slots   — each reports ANY frame picked so far as lost (may_loss_data; may be
//                             repeated, may be spurious) or acknowledged (on_data_acked; only if
//                             at least one copy was delivered; final), or does nothing
// followed by one more pick_up with ample limits (bounded progress lemma) and one try_read with a
// symbolic reader capacity.
// Frames lost in the network are the ones with 0 copies; duplication = 2 copies; reordering =
// delivery slots pick frames in any order; retransmission = a later pick_up re-offers lost bytes,
// in general split at different boundaries than the original frames.
//
// "For all bytes" is expressed with ONE symbolic probe offset x fixed before the run; ghost
// variables follow what happened to byte x (its colour per the documented semantics of the send
// buffer, whether a frame containing it was delivered / acknowledged).
use bytes::BufMut;

use super::*;
use crate::recv::RecvBuf;

const W: u64 = 4;
static SEQ: [u8; 8] = [0, 1, 2, 3, 4, 5, 6, 7];
const LIM: u64 = (1 << 62) - 1;

fn content(from: u64, to: u64) -> Bytes {
    Bytes::from_static(&SEQ).slice(from as usize..to as usize)
}

/// core's slice-index panic path builds `fmt::Arguments` at run time; the stub keeps the panic
/// (still reported as a failed check) and drops the message.
pub(super) fn stub_slice_index_fail(_start: usize, _end: usize, _len: usize) -> ! {
    panic!("slice index out of range")
}

/// The reader's buffer: a recording BufMut with `cap` bytes of space. It does not copy bytes: the
/// stream content is `Bytes::from_static(&SEQ)` sliced (never copied) by both buffers, so the
/// byte at stream offset y lives at address SEQ + y, and a `put` of a Bytes is recorded as
/// (stream offset of its first byte, recognised by ADDRESS; length). No byte arrays at symbolic
/// offsets, no memcpy with symbolic length (NOTES-tracing.md §"BufMut targets").
struct Sink {
    cap: usize,
    pos: usize,
    /// every put so far started at the address of the next expected stream byte
    in_order: bool,
    /// stream offset the next put has to start at
    next: u64,
    puts: u32,
    dummy: [u8; 1],
}

impl Sink {
    fn new(cap: usize, first: u64) -> Self {
        Sink { cap, pos: 0, in_order: true, next: first, puts: 0, dummy: [0] }
    }
}

unsafe impl BufMut for Sink {
    fn remaining_mut(&self) -> usize {
        self.cap - self.pos
    }
    unsafe fn advance_mut(&mut self, _cnt: usize) {
        panic!("raw chunk access is not used by RecvBuf::try_read");
    }
    fn chunk_mut(&mut self) -> &mut bytes::buf::UninitSlice {
        panic!("raw chunk access is not used by RecvBuf::try_read");
        #[allow(unreachable_code)]
        bytes::buf::UninitSlice::new(&mut self.dummy[..])
    }
    /// Same contract as the provided method (panics if the source does not fit); records instead of copying.
    fn put<T: bytes::Buf>(&mut self, src: T)
    where
        Self: Sized,
    {
        let n = src.remaining();
        assert!(n <= self.cap - self.pos, "advance out of bounds");
        if n > 0 {
            let s = src.chunk();
            assert!(s.len() == n, "a Bytes is one contiguous chunk");
            if !core::ptr::eq(s.as_ptr(), SEQ.as_ptr().wrapping_add(self.next as usize)) {
                self.in_order = false;
            }
            self.next += n as u64;
            self.pos += n;
            self.puts += 1;
        }
        core::mem::forget(src);
    }
}

/// Is `d` exactly the bytes SEQ[from..from+d.len()) (by address: content is never copied)?
fn is_content(d: &Bytes, from: u64) -> bool {
    core::ptr::eq(d.as_ptr(), SEQ.as_ptr().wrapping_add(from as usize))
}

/// Ghost colour of the probe byte (documented semantics of the send buffer).
#[derive(Clone, Copy, PartialEq, Eq)]
enum G {
    Never,
    Flight,
    Lost,
    Acked,
}

/// Real colour of byte x < written (bytes beyond the map were never sent).
fn real_color(b: &SendBuf, x: u64) -> G {
    if x >= b.state.size() {
        return G::Never;
    }
    let mut c = Color::Recved;
    let n = b.state.0.len();
    let mut i = 0;
    while i < n {
        let s = b.state.0[i];
        if s.offset() <= x {
            c = s.color();
        }
        i += 1;
    }
    match c {
        Color::Pending => G::Never,
        Color::Flighting => G::Flight,
        Color::Lost => G::Lost,
        Color::Recved => G::Acked,
    }
}


// ------------------------------------------------------------------------------------------------
// The recursive helper `BufMap::may_lost_from`.
//
// `may_loss` hands the part of a lost range that lies behind an acked hole to the RECURSIVE helper
// `may_lost_from` (the recursive call sits inside a loop). With a symbolic start index and a
// symbolic number of boundaries CBMC has to expand unwind^depth call sites (C09 measured: does
// not finish even at one boundary). The composition harnesses therefore run the real `may_loss`
// with the helper replaced by the recursion-free twin below, and the lemma harnesses
// `c01_lemma_lost_from_eq_n*` prove, for the REAL recursive helper called with every concrete
// start index, that the twin produces exactly the same boundary sequence (not just the same
// colouring) from every map that satisfies the helper's precondition — which the twin asserts at
// every call site inside the composition.

/// Single-pass, recursion-free twin of `BufMap::may_lost_from`. It walks the boundaries once
/// with a concrete loop index and rebuilds the sequence; a "level" is one invocation of the
/// recursive original (the stretch between two acked boundaries): its first converted boundary is
/// kept (as Lost), the following ones are merged into it, a Flighting remainder is split off at `end`.
/// Precondition (asserted): idx_start <= len; the boundary before idx_start is Recved and starts
/// below `end`; no Pending byte below `end`.
pub(super) fn ref_lost_from(m: &mut BufMap, idx_start: usize, end: u64) {
    const MAXN: usize = verif_model::CAP; // (the container model cannot hold more boundaries)
    let n = m.0.len();
    assert!(n <= MAXN, "twin: shape within the twin's capacity");
    assert!(idx_start <= n, "may_lost_from: start index within the map");
    if idx_start > 0 {
        let p = m.0[idx_start - 1];
        assert!(p.color() == Color::Recved && p.offset() < end, "may_lost_from: called right after an acked boundary below the end of the lost range");
    }
    assert!(end <= m.sent(), "may_lost_from: no Pending byte below the end of the lost range");
    const BEFORE: u8 = 0; // boundaries in front of idx_start: copied
    const SCAN: u8 = 1; // boundaries below `end`: converted
    const EQRUN: u8 = 2; // a boundary == end was met: swallow the Lost boundaries that follow
    const DONE: u8 = 3; // copy the rest
    let mut out = [0u64; MAXN + 1];
    let mut cnt: usize = 0;
    macro_rules! push {
        ($v:expr) => {{
            let v: State = $v;
            assert!(cnt <= MAXN);
            out[cnt] = v.0;
            cnt += 1;
        }};
    }
    let mut mode = if idx_start == 0 { SCAN } else { BEFORE };
    let mut kept_first = false; // the current level already has its (kept) first Lost boundary
    let mut pre_color = Color::Recved;
    let mut i = 0;
    while i < MAXN {
        if i < n {
            let s = m.0[i];
            if mode == BEFORE {
                push!(s);
                if i + 1 == idx_start {
                    mode = SCAN;
                }
            } else {
                if mode == SCAN {
                    match s.offset().cmp(&end) {
                        Ordering::Less => {
                            pre_color = s.color();
                            if s.color() == Color::Recved {
                                push!(s); // acked hole: the next boundary starts a new level
                                kept_first = false;
                            } else if !kept_first {
                                push!(State::encode(s.offset(), Color::Lost));
                                kept_first = true;
                            }
                        }
                        Ordering::Equal => mode = EQRUN,
                        Ordering::Greater => {
                            if pre_color == Color::Flighting {
                                push!(State::encode(end, Color::Flighting));
                            }
                            mode = DONE;
                        }
                    }
                }
                if mode == EQRUN {
                    if s.color() == Color::Lost {
                        if !kept_first {
                            push!(s);
                            kept_first = true;
                        }
                    } else {
                        mode = DONE;
                    }
                }
                if mode == DONE {
                    push!(s);
                }
            }
        }
        i += 1;
    }
    if mode == SCAN && end < m.size() && pre_color == Color::Flighting {
        push!(State::encode(end, Color::Flighting));
    }
    assert!(cnt <= n + 1, "twin: at most one boundary added");
    // write back
    let mut j = 0;
    while j < MAXN {
        if j < n && j < cnt {
            m.0.get_mut(j).unwrap().0 = out[j];
        }
        j += 1;
    }
    if cnt > n {
        m.0.push_back(State(out[n]));
    } else {
        m.0.truncate(cnt);
    }
}

/// Lemma: real recursive helper == twin, boundary for boundary, from every map with N boundaries
/// (strictly increasing offsets < size, Pending only last) satisfying the helper's precondition
/// for the concrete start index I. Colours in front of I-1 are arbitrary (may_loss may have
/// repainted them); behind I neighbours differ in colour except Lost|Lost (invariant J of C09).
fn lost_from_eq<const N: usize, const I: usize>() {
    let size: u64 = kani::any();
    // N == CAP: the map is full, so only streams of <= W bytes (where no boundary can be added) are covered
    kani::assume(size <= if N < verif_model::CAP { LIM } else { W });
    let mut a = BufMap::default();
    let mut b = BufMap::default();
    let mut pre = [State(0); N];
    let mut i = 0;
    while i < N {
        let s = State(kani::any());
        kani::assume(s.offset() < size);
        if i > 0 {
            let p = pre[i - 1];
            kani::assume(p.offset() < s.offset() && p.color() != Color::Pending);
            if i >= I {
                kani::assume(p.color() != s.color() || p.color() == Color::Lost);
            }
        }
        pre[i] = s;
        a.0.push_back(s);
        b.0.push_back(s);
        i += 1;
    }
    a.1 = size;
    b.1 = size;
    let end: u64 = kani::any();
    kani::assume(end <= a.sent());
    if I > 0 {
        kani::assume(pre[I - 1].color() == Color::Recved && pre[I - 1].offset() < end);
    }

    a.may_lost_from(I, end);
    ref_lost_from(&mut b, I, end);

    assert!(a.1 == b.1, "twin: same size");
    assert!(a.0.len() == b.0.len(), "twin: same number of boundaries");
    let mut i = 0;
    while i < N + 1 {
        if i < a.0.len() {
            assert!(a.0[i] == b.0[i], "twin: same boundary");
        }
        i += 1;
    }
    kani::cover!(I >= N || N == verif_model::CAP || a.0.len() == N + 1, "split at the end of the lost range");
    kani::cover!(I + 2 > N || a.0.len() < N, "lost segments merged");
}

macro_rules! lost_from_eq_harness {
    ($name:ident, $n:literal, [$($i:literal),*]) => {
        #[kani::proof]
        #[kani::unwind(6)]
        fn $name() {
            $( lost_from_eq::<$n, $i>(); )*
        }
    };
}

lost_from_eq_harness!(c01_lemma_lost_from_eq_n1, 1, [0, 1]);
lost_from_eq_harness!(c01_lemma_lost_from_eq_n2, 2, [0, 1, 2]);
lost_from_eq_harness!(c01_lemma_lost_from_eq_n3, 3, [0, 1, 2, 3]);
lost_from_eq_harness!(c01_lemma_lost_from_eq_n4, 4, [0, 1, 2, 3, 4]);

// ------------------------------------------------------------------------------------------------
// The composition

struct World<const P: usize> {
    snd: SendBuf,
    rcv: RecvBuf,
    written: u64,
    /// probe offset, x < written
    x: u64,
    g: G,
    /// a frame containing x was handed to the receiver
    delivered_x: bool,
    /// picked frames
    has: [bool; P],
    start: [u64; P],
    end: [u64; P],
    inx: [bool; P],
    copies: [u8; P],
    acked: [bool; P],
    lost: [bool; P],
}

impl<const P: usize> World<P> {
    /// The application wrote `written` <= W bytes in CHUNKS (1 or 2) non-empty chunks; the peer's
    /// stream window is symbolic (possibly smaller than what was written).
    fn new<const CHUNKS: usize>() -> Self {
        let t: u64 = kani::any();
        kani::assume(t >= CHUNKS as u64 && t <= W);
        let max_data: u64 = kani::any();
        kani::assume(max_data <= LIM);
        let mut snd = SendBuf::with_capacity(max_data);
        if CHUNKS == 2 {
            let a: u64 = kani::any();
            kani::assume(a >= 1 && a < t);
            snd.write(content(0, a));
            snd.write(content(a, t));
        } else {
            snd.write(content(0, t));
        }
        let x: u64 = kani::any();
        kani::assume(x < t);
        World {
            snd,
            rcv: RecvBuf::default(),
            written: t,
            x,
            g: G::Never,
            delivered_x: false,
            has: [false; P],
            start: [0; P],
            end: [0; P],
            inx: [false; P],
            copies: [0; P],
            acked: [false; P],
            lost: [false; P],
        }
    }

    /// The colour the send buffer records for the probe byte is the one its history implies.
    fn check_color(&self) {
        assert!(real_color(&self.snd, self.x) == self.g, "send buffer colour of every byte == what its history implies");
    }

    /// One pick_up; the frame goes into slot r.
    fn pick(&mut self, r: usize, allow: Option<usize>, flow_limit: usize) -> bool {
        if let Some(a) = allow {
            kani::assume(a >= 1 && a as u64 <= LIM);
        }
        let max_data = self.snd.max_data();
        let res = self.snd.pick_up(|_| allow, flow_limit);
        let ok = match res {
            Ok((range, fresh, chunks)) => {
                assert!(range.start < range.end, "a picked frame carries data");
                assert!(range.end <= self.written && range.end <= max_data, "only written bytes inside the peer's window are sent");
                let total = range.end - range.start;
                if let Some(a) = allow {
                    assert!(total <= a as u64, "congestion allowance respected");
                }
                if fresh {
                    assert!(total <= flow_limit as u64, "fresh data respects the connection flow limit");
                }
                // the bytes handed to the packet are exactly SEQ[range]: consecutive slices of the content
                let mut pos: u64 = 0;
                let mut i = 0;
                while i < 2 {
                    if i < chunks.len() {
                        let d = &chunks[i];
                        assert!(d.len() > 0 && is_content(d, range.start + pos), "frame payload == the bytes written at these offsets, in order");
                        pos += d.len() as u64;
                    }
                    i += 1;
                }
                assert!(chunks.len() <= 2 && pos == total, "frame payload covers the whole range");
                core::mem::forget(chunks);
                let inx = self.x >= range.start && self.x < range.end;
                if inx {
                    assert!(self.g == if fresh { G::Never } else { G::Lost }, "only never-sent or lost bytes are (re)sent; fresh iff never sent");
                    self.g = G::Flight;
                }
                self.has[r] = true;
                self.start[r] = range.start;
                self.end[r] = range.end;
                self.inx[r] = inx;
                true
            }
            Err(_) => false,
        };
        self.check_color();
        ok
    }

    /// Frame j reaches the receiver (once more).
    fn deliver(&mut self, j: usize) {
        if self.has[j] && self.copies[j] < 2 {
            let (s, e) = (self.start[j], self.end[j]);
            let largest = self.rcv.largest_offset();
            let nread = self.rcv.nread();
            let fresh = self.rcv.recv(s, content(s, e));
            assert!(self.rcv.nread() == nread);
            assert!(self.rcv.largest_offset() == if e > largest { e } else { largest }, "highest offset seen");
            assert!(fresh == self.rcv.largest_offset() - largest, "flow-control accounting telescopes");
            self.copies[j] += 1;
            if self.inx[j] {
                self.delivered_x = true;
            }
        }
    }

    /// A delivery slot: a copy of ANY frame picked so far reaches the receiver (or nothing does).
    fn deliver_slot(&mut self) {
        let j: usize = kani::any();
        kani::assume(j < P);
        self.deliver(j);
    }

    /// Frame j is acknowledged (a truthful peer only acknowledges what it received; final).
    fn ack(&mut self, j: usize) {
        if self.has[j] && !self.acked[j] && self.copies[j] >= 1 {
            self.snd.on_data_acked(&(self.start[j]..self.end[j]));
            self.acked[j] = true;
            if self.inx[j] {
                self.g = G::Acked;
            }
        }
    }

    /// Frame j is reported lost (possibly spuriously, possibly again; not after its ack).
    fn lose(&mut self, j: usize) {
        if self.has[j] && !self.acked[j] {
            self.snd.may_loss_data(&(self.start[j]..self.end[j]));
            self.lost[j] = true;
            if self.inx[j] && self.g == G::Flight {
                self.g = G::Lost;
            }
        }
    }

    /// A feedback slot: ANY frame picked so far is reported lost or acknowledged (or nothing).
    fn feedback_slot(&mut self) {
        let j: usize = kani::any();
        kani::assume(j < P);
        if kani::any() {
            self.ack(j);
        } else {
            self.lose(j);
        }
        self.check_color();
    }

    /// Completion is reported exactly when every written byte was acknowledged.
    fn check_completion(&self) -> bool {
        let x = self.x;
        let all = self.snd.is_all_rcvd();
        if all {
            assert!(self.g == G::Acked, "is_all_rcvd only when every written byte was acknowledged");
        } else {
            // `offset` is the first unacknowledged written byte
            assert!(self.snd.offset < self.written);
            if x == self.snd.offset {
                assert!(self.g != G::Acked, "not complete => the byte at the acked-prefix mark is unacknowledged");
            }
        }
        if x < self.snd.offset {
            assert!(self.g == G::Acked, "only acknowledged bytes are dropped from the send buffer");
        }
        if self.g == G::Acked {
            assert!(self.delivered_x, "acknowledged => delivered");
        }
        all
    }

    /// Bounded progress: the next pick_up with ample limits offers the lowest byte that needs
    /// (re)sending, and only bytes that need it.
    fn progress_pick(&mut self) {
        let x = self.x;
        let max_data = self.snd.max_data();
        let needs = (self.g == G::Lost || self.g == G::Never) && x < max_data;
        let res = self.snd.pick_up(|_| Some(W as usize), W as usize);
        match res {
            Ok((range, fresh, chunks)) => {
                if needs {
                    assert!(range.start <= x, "lowest byte needing (re)transmission is offered first");
                }
                if x >= range.start && x < range.end {
                    assert!(needs && fresh == (self.g == G::Never), "only bytes needing (re)transmission are offered");
                    self.g = G::Flight;
                }
                kani::cover!(!fresh, "retransmission offered");
                core::mem::forget(chunks);
            }
            Err(_) => {
                assert!(!needs, "a lost or never-sent byte inside the window is offered by the next pick_up with sufficient limits");
            }
        }
        self.check_color();
    }

    /// What the reader sees: exactly the contiguous prefix of delivered bytes, with original
    /// values, in order, each byte once.
    fn reader(&mut self) {
        let x = self.x;
        let nread0 = self.rcv.nread();
        assert!(nread0 == 0);
        let avail = self.rcv.available();
        assert!(avail <= self.written);
        if x < avail {
            assert!(self.delivered_x, "nothing becomes readable that was not delivered");
        }
        if x == avail {
            assert!(!self.delivered_x, "once every byte of a prefix was delivered, the prefix is readable");
        }
        assert!(self.rcv.is_readable() == (avail > 0));
        let cap: usize = kani::any();
        kani::assume(cap <= 8);
        let mut sink = Sink::new(cap, 0);
        let n = self.rcv.try_read(&mut sink);
        let expect = if (cap as u64) < avail { cap as u64 } else { avail };
        assert!(n as u64 == expect && sink.pos == n, "reads min(capacity, contiguous delivered prefix)");
        assert!(self.rcv.nread() == n as u64);
        assert!(sink.in_order && sink.next == n as u64, "bytes read == bytes written, same order, nothing missing / duplicated / altered");
        assert!(self.rcv.available() == avail - n as u64, "the unread rest stays readable");
        // a second read continues where the first stopped (no byte twice)
        let mut sink2 = Sink::new(8, n as u64);
        let n2 = self.rcv.try_read(&mut sink2);
        assert!(n2 as u64 == avail - n as u64);
        assert!(sink2.in_order && sink2.next == avail, "second read continues at the next byte");
        kani::cover!(n > 0 && (n as u64) < avail, "partial read");
        kani::cover!(avail == self.written, "whole content readable");
    }
}

/// P rounds with D[r] delivery slots and F[r] feedback slots after the r-th pick_up, then the
/// closing obligations.
fn compose<const CHUNKS: usize, const P: usize>(d: [usize; P], f: [usize; P]) {
    let mut w = World::<P>::new::<CHUNKS>();
    let mut r = 0;
    while r < P {
        w.pick(r, kani::any(), kani::any());
        let mut i = 0;
        while i < d[r] {
            w.deliver_slot();
            i += 1;
        }
        let mut i = 0;
        while i < f[r] {
            w.feedback_slot();
            i += 1;
        }
        r += 1;
    }
    kani::cover!(w.has[P - 1] && w.copies[P - 1] == 2, "last frame duplicated");
    kani::cover!(w.has[0] && w.lost[0] && w.copies[0] == 0, "first frame lost in the network and reported lost");
    kani::cover!(P < 2 || (w.has[P - 1] && w.lost[0] && w.start[P - 1] <= w.start[0] && w.end[P - 1] > w.start[0]), "a later frame retransmits bytes of the first");
    let all = w.check_completion();
    kani::cover!(all, "everything acknowledged");
    w.progress_pick();
    w.reader();
    core::mem::forget(w);
}

macro_rules! compose_harness {
    ($name:ident, $c:literal, $p:literal, $d:expr, $f:expr) => {
        #[kani::proof]
        #[kani::unwind(6)]
        #[kani::stub(core::slice::index::slice_index_fail, stub_slice_index_fail)]
        #[kani::stub(BufMap::may_lost_from, ref_lost_from)]
        fn $name() {
            compose::<$c, $p>($d, $f);
        }
    };
}

compose_harness!(c01_compose_c1p1, 1, 1, [2], [1]);
compose_harness!(c01_compose_c2p1, 2, 1, [2], [1]);
compose_harness!(c01_compose_c1p2, 1, 2, [1, 2], [1, 2]);
compose_harness!(c01_compose_c1p3, 1, 3, [1, 1, 2], [1, 1, 2]);

// ------------------------------------------------------------------------------------------------
// Sender half: the same world without the receiver. Whether a frame reached the peer is a free
// boolean (so every ack / loss pattern of the full world is included); deeper schedules are
// affordable. Guarantees to the receiver half: every emitted frame is (range inside the written
// data, payload == SEQ[range]) — asserted in `pick`.

fn send_half<const CHUNKS: usize, const P: usize>(f: [usize; P]) {
    let mut w = World::<P>::new::<CHUNKS>();
    let mut r = 0;
    while r < P {
        w.pick(r, kani::any(), kani::any());
        let mut i = 0;
        while i < f[r] {
            let j: usize = kani::any();
            kani::assume(j < P);
            if kani::any() && w.has[j] {
                w.copies[j] = 1;
                if w.inx[j] {
                    w.delivered_x = true;
                }
            }
            w.feedback_slot();
            i += 1;
        }
        r += 1;
    }
    kani::cover!(w.has[0] && w.lost[0] && w.acked[0], "ack after a (spurious) loss report");
    kani::cover!(P < 2 || (w.has[P - 1] && w.lost[0] && w.start[P - 1] <= w.start[0] && w.end[P - 1] > w.start[0]), "a later frame retransmits bytes of the first");
    let all = w.check_completion();
    kani::cover!(all, "everything acknowledged");
    w.progress_pick();
    core::mem::forget(w);
}

macro_rules! send_harness {
    ($name:ident, $c:literal, $p:literal, $f:expr) => {
        #[kani::proof]
        #[kani::unwind(6)]
        #[kani::stub(core::slice::index::slice_index_fail, stub_slice_index_fail)]
        #[kani::stub(BufMap::may_lost_from, ref_lost_from)]
        fn $name() {
            send_half::<$c, $p>($f);
        }
    };
}

send_harness!(c01_send_c1p1, 1, 1, [2]);
send_harness!(c01_send_c1p2, 1, 2, [1, 2]);
send_harness!(c01_send_c2p2, 2, 2, [1, 2]);
send_harness!(c01_send_c1p3, 1, 3, [1, 1, 2]);

// ------------------------------------------------------------------------------------------------
// Receiver half: K arbitrary frames (range inside the written data, payload == SEQ[range]) in
// arbitrary order with arbitrary overlaps / duplicates — a superset of whatever the sender half
// emits under any fault schedule — delivered one after the other to a fresh RecvBuf, then the reader.

fn recv_half<const K: usize>() {
    let t: u64 = kani::any();
    kani::assume(t >= 1 && t <= W);
    let x: u64 = kani::any();
    kani::assume(x < t);
    let mut rcv = RecvBuf::default();
    let mut delivered_x = false;
    let mut k = 0;
    while k < K {
        let s: u64 = kani::any();
        let e: u64 = kani::any();
        kani::assume(s < e && e <= t);
        let largest = rcv.largest_offset();
        let fresh = rcv.recv(s, content(s, e));
        assert!(rcv.nread() == 0);
        assert!(rcv.largest_offset() == if e > largest { e } else { largest }, "highest offset seen");
        assert!(fresh == rcv.largest_offset() - largest, "flow-control accounting telescopes");
        if x >= s && x < e {
            delivered_x = true;
        }
        k += 1;
    }
    let mut w = World::<0> {
        snd: SendBuf::default(),
        rcv,
        written: t,
        x,
        g: G::Never,
        delivered_x,
        has: [],
        start: [],
        end: [],
        inx: [],
        copies: [],
        acked: [],
        lost: [],
    };
    w.reader();
    core::mem::forget(w);
}

macro_rules! recv_harness {
    ($name:ident, $k:literal) => {
        #[kani::proof]
        #[kani::unwind(6)]
        #[kani::stub(core::slice::index::slice_index_fail, stub_slice_index_fail)]
        fn $name() {
            recv_half::<$k>();
        }
    };
}

recv_harness!(c01_recv_k1, 1);
recv_harness!(c01_recv_k2, 2);
recv_harness!(c01_recv_k3, 3);

// ------------------------------------------------------------------------------------------------
// Sender half at the BufMap level (the retransmission logic proper: which bytes are offered when).
// Same ghost colour oracle and the same fault schedules as `send_half`, on the real
// `BufMap::{extend_to, pick, ack_rcvd, shift, may_loss, sent}` without SendBuf's chunk store
// (pure integer state: deeper schedules are affordable). `SendBuf::{write, pick_up, on_data_acked,
// may_loss_data}` are thin wrappers: write = extend_to(min(written, max_data)) + store chunk;
// pick_up = pick(.., max_data) + slice chunks; on_data_acked = ack_rcvd + shift + drop chunks;
// may_loss_data = may_loss. The wrappers themselves run in `send_half` / `compose` (small shapes)
// and one step at a time in C09.

struct MapWorld<const P: usize> {
    m: BufMap,
    written: u64,
    window: u64,
    x: u64,
    g: G,
    has: [bool; P],
    start: [u64; P],
    end: [u64; P],
    inx: [bool; P],
    acked: [bool; P],
    lost: [bool; P],
}

fn map_color(m: &BufMap, x: u64) -> G {
    if x >= m.size() {
        return G::Never;
    }
    let mut c = Color::Recved;
    let n = m.0.len();
    let mut i = 0;
    while i < n {
        let s = m.0[i];
        if s.offset() <= x {
            c = s.color();
        }
        i += 1;
    }
    match c {
        Color::Pending => G::Never,
        Color::Flighting => G::Flight,
        Color::Lost => G::Lost,
        Color::Recved => G::Acked,
    }
}

impl<const P: usize> MapWorld<P> {
    fn new() -> Self {
        let t: u64 = kani::any();
        kani::assume(t >= 1 && t <= W);
        let window: u64 = kani::any();
        kani::assume(window <= LIM);
        let mut m = BufMap::default();
        m.extend_to(if t < window { t } else { window });
        let x: u64 = kani::any();
        kani::assume(x < t);
        MapWorld { m, written: t, window, x, g: G::Never, has: [false; P], start: [0; P], end: [0; P], inx: [false; P], acked: [false; P], lost: [false; P] }
    }

    fn check_color(&self) {
        assert!(map_color(&self.m, self.x) == self.g, "send buffer colour of every byte == what its history implies");
    }

    fn pick(&mut self, r: usize, allow: Option<usize>, flow_limit: usize) {
        if let Some(a) = allow {
            kani::assume(a >= 1 && a as u64 <= LIM);
        }
        if let Ok((range, fresh)) = self.m.pick(|_| allow, flow_limit, self.window) {
            assert!(range.start < range.end && range.end <= self.written && range.end <= self.window, "a frame carries written bytes inside the peer's window");
            let total = range.end - range.start;
            if let Some(a) = allow {
                assert!(total <= a as u64, "congestion allowance respected");
            }
            if fresh {
                assert!(total <= flow_limit as u64, "fresh data respects the connection flow limit");
            }
            let inx = self.x >= range.start && self.x < range.end;
            if inx {
                assert!(self.g == if fresh { G::Never } else { G::Lost }, "only never-sent or lost bytes are (re)sent; fresh iff never sent");
                self.g = G::Flight;
            }
            self.has[r] = true;
            self.start[r] = range.start;
            self.end[r] = range.end;
            self.inx[r] = inx;
        }
        self.check_color();
    }

    fn feedback_slot(&mut self) {
        let j: usize = kani::any();
        kani::assume(j < P);
        if self.has[j] && !self.acked[j] {
            let range = self.start[j]..self.end[j];
            if kani::any() {
                self.m.ack_rcvd(&range);
                self.m.shift();
                self.acked[j] = true;
                if self.inx[j] {
                    self.g = G::Acked;
                }
            } else {
                self.m.may_loss(&range);
                self.lost[j] = true;
                if self.inx[j] && self.g == G::Flight {
                    self.g = G::Lost;
                }
            }
        }
        self.check_color();
    }

    fn finish(mut self) {
        let x = self.x;
        // completion: the acked prefix mark reaches the end exactly when everything was acked
        let mark = self.m.shift();
        let size = self.m.size();
        assert!(mark <= size && size == if self.written < self.window { self.written } else { self.window });
        if x < mark {
            assert!(self.g == G::Acked, "only acknowledged bytes lie below the acked-prefix mark");
        }
        if x == mark {
            assert!(self.g != G::Acked, "the byte at the acked-prefix mark is unacknowledged");
        }
        kani::cover!(mark == self.written, "everything acknowledged");
        // bounded progress
        let needs = (self.g == G::Lost || self.g == G::Never) && x < self.window;
        match self.m.pick(|_| Some(W as usize), W as usize, self.window) {
            Ok((range, fresh)) => {
                if needs {
                    assert!(range.start <= x, "lowest byte needing (re)transmission is offered first");
                }
                if x >= range.start && x < range.end {
                    assert!(needs && fresh == (self.g == G::Never), "only bytes needing (re)transmission are offered");
                    self.g = G::Flight;
                }
                kani::cover!(!fresh, "retransmission offered");
            }
            Err(_) => assert!(!needs, "a lost or never-sent byte inside the window is offered by the next pick with sufficient limits"),
        }
        self.check_color();
    }
}

fn map_half<const P: usize>(f: [usize; P]) {
    let mut w = MapWorld::<P>::new();
    let mut r = 0;
    while r < P {
        w.pick(r, kani::any(), kani::any());
        let mut i = 0;
        while i < f[r] {
            w.feedback_slot();
            i += 1;
        }
        r += 1;
    }
    kani::cover!(w.has[0] && w.lost[0] && w.acked[0], "ack after a (spurious) loss report");
    kani::cover!(P < 2 || (w.has[P - 1] && w.lost[0] && w.start[P - 1] <= w.start[0] && w.end[P - 1] > w.start[0]), "a later frame retransmits bytes of the first");
    w.finish();
}

macro_rules! map_harness {
    ($name:ident, $p:literal, $f:expr) => {
        #[kani::proof]
        #[kani::unwind(6)]
        #[kani::stub(BufMap::may_lost_from, ref_lost_from)]
        fn $name() {
            map_half::<$p>($f);
        }
    };
}

map_harness!(c01_map_p1, 1, [2]);
map_harness!(c01_map_p2, 2, [1, 2]);
map_harness!(c01_map_p3, 3, [1, 1, 2]);
