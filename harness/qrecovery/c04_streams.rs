// Kani harnesses compiled inside qrecovery::streams::raw (overlay, cfg(kani) only).  Property C04.
//
// Frames that name an IMPOSSIBLE stream: a locally-initiated stream this endpoint has never opened
// (index >= ArcLocalStreamIds::opened_streams(dir); here nothing was ever opened). RFC 9000:
//   §19.8  STREAM:          "An endpoint MUST terminate the connection with error STREAM_STATE_ERROR if
//                            it receives a STREAM frame for a locally initiated stream that has not
//                            yet been created, or for a send-only stream."
//   §19.5  STOP_SENDING:    "Receiving a STOP_SENDING frame for a locally initiated stream that has not
//                            yet been created MUST be treated as a connection error of type
//                            STREAM_STATE_ERROR."
//   §19.10 MAX_STREAM_DATA: same sentence.
//   §19.4  RESET_STREAM:    only the send-only case is spelled out; a RESET_STREAM for a bidirectional
//                            stream we never opened is impossible in the same way (§3.2: the receiving
//                            part only comes into existence when WE open the stream).
// The REAL DataStreams::recv_data / recv_stream_control run on a DataStreams that holds no streams,
// every stream index (< 2^60), both local roles.
// (empty_streams / deliver pattern copied from harness/qrecovery/streams_direction.rs, property C12)
use qbase::{
    frame::{FrameType, MaxStreamDataFrame, StopSendingFrame},
    sid::handy::DemandConcurrency,
};

use super::*;

#[derive(Clone, Debug)]
struct Sink;

static mut SENT: u32 = 0;

impl SendFrame<StreamCtlFrame> for Sink {
    fn send_frame<I: IntoIterator<Item = StreamCtlFrame>>(&self, iter: I) {
        for _f in iter {
            unsafe { SENT += 1 };
        }
    }
}

/// The DataStreams under test holds NO streams (ArcInput::default(): empty map), so a lookup in the
/// receiving-side map finds nothing. Stating that directly (instead of letting CBMC derive it
/// through Arc<Mutex<Result<HashMap<..>>>>) keeps the never-taken bodies `incoming.recv_reset(..)`,
/// `incoming.recv_data(..)` and the drop glue of `(Incoming, IOState)` (RecvBuf segments, io::Error)
/// out of the query: without these two stubs one delivery does not finish in 20 min.
fn stub_map_remove_none<K: PartialEq, V>(m: &mut verif_model::HashMap<K, V>, _k: &K) -> Option<V> {
    assert!(m.len() == 0, "the stub is only exact on an empty map");
    None
}
fn stub_map_get_none<'a, K: PartialEq, V>(m: &'a verif_model::HashMap<K, V>, _k: &K) -> Option<&'a V> {
    assert!(m.len() == 0, "the stub is only exact on an empty map");
    None
}

fn stub_fmt(_args: core::fmt::Arguments<'_>) -> String {
    String::new()
}

fn stub_write(_o: &mut dyn core::fmt::Write, _a: core::fmt::Arguments<'_>) -> core::fmt::Result {
    Ok(())
}

#[derive(Clone, Copy, PartialEq)]
enum Verdict {
    StreamState,
    OtherError,
    Ignored,
}

fn empty_streams(role: Role) -> DataStreams<Sink> {
    DataStreams {
        ctrl_frames: Sink,
        role,
        stream_ids: StreamIds::new(role, 0, 0, 0, 0, Ext(Sink), Box::new(DemandConcurrency), ArcSendWakers::default()),
        output: ArcOutput::new(),
        input: ArcInput::default(),
        listener: ArcListener::new(),
        tls_fin: AtomicBool::new(false),
        tx_wakers: ArcSendWakers::default(),
        initial_max_stream_data_bidi_local: 0,
        initial_max_stream_data_bidi_remote: 0,
        initial_max_stream_data_uni: 0,
        metrics: None,
    }
}

/// One frame of KIND (0 STREAM, 1 RESET_STREAM, 2 STOP_SENDING, 3 MAX_STREAM_DATA) naming the
/// locally-initiated stream (role, dir, symbolic index), with arbitrary numeric fields, delivered
/// to a DataStreams of that role which has never opened a stream. Role and direction are concrete
/// per call (a symbolic role makes CBMC walk the stream-creation path: does not finish).
fn deliver_local<const KIND: u8>(role: Role, dir: Dir) -> Verdict {
    // StreamIds::new(.., 0, 0, ..): the peer allows no stream yet, so none was ever opened
    // (ArcLocalStreamIds::opened_streams(dir) == 0; calling it here costs another lock round trip)
    let ds = empty_streams(role);
    let id: u64 = kani::any();
    kani::assume(id < (1u64 << 60));
    let sid = StreamId::new(role, dir, id);
    // numeric fields concrete: symbolic ones (and any inspection of the post-state through the
    // Arc<Mutex<..>> wrappers) pushed one delivery beyond 20 min / 5 GB
    let a: u64 = 0;
    let va = VarInt::from_u32(0);
    let vb = VarInt::from_u32(0);
    let res: Result<usize, QuicError> = match KIND {
        0 => ds.recv_data((StreamFrame::new(sid, a, 0), Bytes::new())),
        1 => ds.recv_stream_control(StreamCtlFrame::ResetStream(ResetStreamFrame::new(sid, va, vb))),
        2 => ds.recv_stream_control(StreamCtlFrame::StopSending(StopSendingFrame::new(sid, va))),
        _ => ds.recv_stream_control(StreamCtlFrame::MaxStreamData(MaxStreamDataFrame::new(sid, va))),
    };
    let got = match &res {
        Ok(n) => {
            assert!(*n == 0, "no flow-control credit is consumed");
            Verdict::Ignored
        }
        Err(e) => match e.kind() {
            ErrorKind::StreamState => Verdict::StreamState,
            _ => Verdict::OtherError,
        },
    };
    // bounded work / not acted on, whatever the verdict
    assert!(unsafe { SENT } == 0, "no frame is emitted in response");
    // (inspecting ds.input / ds.output / opened_streams afterwards -- "no stream object was
    //  created" -- did not finish: > 20 min CPU and 5 GB per harness; not asserted)
    core::mem::forget(res);
    core::mem::forget(ds);
    got
}

/// `want` = verdict demanded for a never-opened locally-initiated BIDIRECTIONAL stream.
/// One role per harness: a single delivery already costs minutes (the drop glue of the
/// `Option<(Incoming, IOState)>` / `Option<&(Outgoing, IOState)>` the empty maps return is walked
/// symbolically, including RecvBuf segments and io::Error).
fn unopened<const KIND: u8>(role: Role, want: Verdict) {
    let got = deliver_local::<KIND>(role, Dir::Bi);
    kani::cover!(got == Verdict::Ignored, "as built: ignored");
    assert!(got == want);
}

macro_rules! c04_stream_harness {
    ($name:ident, $k:expr, $role:expr, $want:expr) => {
        #[kani::proof]
        #[kani::unwind(6)]
        #[kani::stub(std::fmt::format, stub_fmt)]
        #[kani::stub(core::fmt::write, stub_write)]
        #[kani::stub(verif_model::HashMap::remove, stub_map_remove_none)]
        #[kani::stub(verif_model::HashMap::get, stub_map_get_none)]
        fn $name() {
            unopened::<$k>($role, $want);
        }
    };
}

// pending (genuine non-conformance found while building C04): the frames are silently ignored.
c04_stream_harness!(c04_streams_unopened_stream_rejected, 0, Role::Client, Verdict::StreamState);
c04_stream_harness!(c04_streams_unopened_reset_stream_rejected, 1, Role::Server, Verdict::StreamState);
c04_stream_harness!(c04_streams_unopened_stop_sending_rejected, 2, Role::Client, Verdict::StreamState);
c04_stream_harness!(c04_streams_unopened_max_stream_data_rejected, 3, Role::Server, Verdict::StreamState);

// passing twins: as built, such a frame is answered with Ok(0): nothing is sent in response, no
// flow-control credit is consumed, the stream stays unopened (asserted inside deliver_local).
c04_stream_harness!(c04_streams_unopened_stream_ignored, 0, Role::Client, Verdict::Ignored);
c04_stream_harness!(c04_streams_unopened_reset_stream_ignored, 1, Role::Server, Verdict::Ignored);
c04_stream_harness!(c04_streams_unopened_stop_sending_ignored, 2, Role::Client, Verdict::Ignored);
c04_stream_harness!(c04_streams_unopened_max_stream_data_ignored, 3, Role::Server, Verdict::Ignored);

/// STOP_SENDING for a never-opened locally-initiated UNIDIRECTIONAL stream (same RFC sentence):
/// also ignored as built. Receiver-side frame only (sender-side
/// frames on a local uni stream are STREAM_STATE_ERROR already: C12 c12_direction_*).
#[kani::proof]
#[kani::unwind(6)]
#[kani::stub(std::fmt::format, stub_fmt)]
#[kani::stub(core::fmt::write, stub_write)]
#[kani::stub(verif_model::HashMap::remove, stub_map_remove_none)]
#[kani::stub(verif_model::HashMap::get, stub_map_get_none)]
fn c04_streams_unopened_uni_receiver_frames_ignored() {
    assert!(deliver_local::<2>(Role::Server, Dir::Uni) == Verdict::Ignored);
    kani::cover!(true);
}
