// Kani harnesses compiled inside qrecovery::recv::recver (overlay injection, cfg(kani) only).
// Property C12, final-size clause: a peer that contradicts a stream's final size (FIN below data
// already received, data beyond the final size, a second FIN or a RESET_STREAM with a different
// size) is answered with FINAL_SIZE_ERROR — and only then. One operation from an arbitrary state
// of `Recv` / `SizeKnown` whose RecvBuf holds 0 or 1 segment inside an 8-byte window (identity
// content); final sizes, limits and the error-path offsets are full-width.
use core::task::{RawWaker, RawWakerVTable};

use qbase::{error::ErrorFrameType, role::Role, sid::Dir};

use super::*;

const W: u64 = 8;
static SEQ: [u8; 8] = [0, 1, 2, 3, 4, 5, 6, 7];

fn content(from: u64, to: u64) -> Bytes {
    Bytes::from_static(&SEQ).slice(from as usize..to as usize)
}

static mut MSD_N: u32 = 0;
static mut MSD_LAST: u64 = 0;
static mut MSD_SID: u64 = 0;
static mut STOP_N: u32 = 0;
static mut WAKED: u32 = 0;
static mut CLONED: u32 = 0;

#[derive(Clone, Debug)]
struct Sink;

impl SendFrame<MaxStreamDataFrame> for Sink {
    fn send_frame<I: IntoIterator<Item = MaxStreamDataFrame>>(&self, iter: I) {
        for f in iter {
            unsafe {
                MSD_N += 1;
                MSD_LAST = f.max_stream_data();
                MSD_SID = f.stream_id().into();
            }
        }
    }
}

impl SendFrame<StopSendingFrame> for Sink {
    fn send_frame<I: IntoIterator<Item = StopSendingFrame>>(&self, iter: I) {
        for _f in iter {
            unsafe { STOP_N += 1 };
        }
    }
}

unsafe fn w_clone(p: *const ()) -> RawWaker {
    unsafe { CLONED += 1 };
    RawWaker::new(p, &VTABLE)
}
unsafe fn w_wake(_p: *const ()) {
    unsafe { WAKED += 1 };
}
unsafe fn w_drop(_p: *const ()) {}
static VTABLE: RawWakerVTable = RawWakerVTable::new(w_clone, w_wake, w_wake, w_drop);

fn new_waker() -> Waker {
    unsafe { Waker::from_raw(RawWaker::new(core::ptr::null(), &VTABLE)) }
}

fn stub_fmt(_args: core::fmt::Arguments<'_>) -> String {
    String::new()
}

fn any_sid() -> StreamId {
    let id: u64 = kani::any();
    kani::assume(id < (1u64 << 60));
    StreamId::new(
        if kani::any() { Role::Client } else { Role::Server },
        if kani::any() { Dir::Bi } else { Dir::Uni },
        id,
    )
}

/// Arbitrary valid `Recv`: RecvBuf with SEGS (0 or 1) stored segment [a, b) inside the window
/// (built through RecvBuf's own API), `rcvbuf.largest_offset <= largest <= max_stream_data <=
/// 2^62-1` (largest may exceed the buffered data: empty frames advance it), optional parked reader.
fn any_recv<const SEGS: usize>() -> (Recv<Sink>, u64) {
    let mut rcvbuf = rcvbuf::RecvBuf::default();
    if SEGS == 1 {
        let a: u64 = kani::any();
        let b: u64 = kani::any();
        kani::assume(a < b && b <= W);
        rcvbuf.recv(a, content(a, b));
    }
    let buffered = rcvbuf.largest_offset();
    let largest: u64 = kani::any();
    let max_stream_data: u64 = kani::any();
    kani::assume(buffered <= largest && largest <= max_stream_data && max_stream_data <= VARINT_MAX);
    let r = Recv {
        stream_id: any_sid(),
        rcvbuf,
        read_waker: if kani::any() { Some(new_waker()) } else { None },
        stop_state: None,
        broker: Sink,
        largest,
        max_stream_data,
    };
    (r, buffered)
}

/// Arbitrary valid `SizeKnown` with 0/1 buffered segment: everything buffered lies below the
/// final size (invariant established by determin_size and kept by SizeKnown::recv).
fn any_size_known<const SEGS: usize>() -> (SizeKnown<Sink>, u64) {
    let mut rcvbuf = rcvbuf::RecvBuf::default();
    if SEGS == 1 {
        let a: u64 = kani::any();
        let b: u64 = kani::any();
        kani::assume(a < b && b <= W);
        rcvbuf.recv(a, content(a, b));
    }
    let buffered = rcvbuf.largest_offset();
    let final_size: u64 = kani::any();
    kani::assume(buffered <= final_size && final_size <= VARINT_MAX);
    let sk = SizeKnown {
        stream_id: any_sid(),
        rcvbuf,
        read_waker: if kani::any() { Some(new_waker()) } else { None },
        stop_state: None,
        broker: Sink,
        final_size,
    };
    (sk, buffered)
}

/// First FIN (`Recv::determin_size`), every offset/length the STREAM parser can produce:
/// Err(FlowControl, this frame's type) iff the announced final size exceeds the advertised stream
/// limit (checked first); else Err(FinalSize, this frame's type) iff data beyond the announced final
/// size was already received; otherwise the stream becomes SizeKnown with final size == offset+len,
/// keeping its buffer, id and stop state. A parked reader is woken either way.
fn determin_step<const SEGS: usize>() {
    let (mut r, buffered) = any_recv::<SEGS>();
    let had_waker = r.read_waker.is_some();
    let sid = r.stream_id;
    let msd = r.max_stream_data;
    let off: u64 = kani::any();
    let len: usize = kani::any();
    kani::assume(len as u64 <= VARINT_MAX && off <= VARINT_MAX - len as u64);
    let mut frame = StreamFrame::new(sid, off, len);
    frame.set_eos_flag(true);
    let end = off + len as u64;
    let res = r.determin_size(&frame);
    assert!(unsafe { WAKED } == if had_waker { 1 } else { 0 });
    // witnesses are per instance: with nothing buffered (SEGS == 0) no final size can be too small
    kani::cover!(if SEGS == 0 { res.is_ok() && end == 0 } else { res.is_err() && end + 1 == buffered }, "smallest final size / final size one byte below received data");
    match res {
        Err(e) => {
            if end > msd {
                assert!(e.kind() == ErrorKind::FlowControl, "a final size beyond the advertised stream limit is a FLOW_CONTROL_ERROR");
                kani::cover!(end == msd + 1, "final size one byte beyond the stream limit");
            } else {
                assert!(buffered > end, "FINAL_SIZE_ERROR only if data beyond the final size was already received");
                assert!(e.kind() == ErrorKind::FinalSize);
            }
            assert!(e.frame_type() == ErrorFrameType::V1(frame.frame_type()));
            assert!(r.max_stream_data == msd && r.rcvbuf.largest_offset() == buffered, "a rejected FIN changes nothing");
            core::mem::forget(e);
        }
        Ok(sk) => {
            assert!(end <= msd, "a final size beyond the stream limit is never accepted");
            assert!(buffered <= end, "a final size below received data is never accepted");
            assert!(sk.final_size == end && sk.stream_id == sid);
            assert!(sk.rcvbuf.largest_offset() == buffered, "buffered data moves to the SizeKnown state");
            kani::cover!(end == buffered, "final size exactly at the received high-water mark");
            kani::cover!(end == msd && end > (1u64 << 61), "full-width final size exactly at the stream limit");
            core::mem::forget(sk);
        }
    }
    core::mem::forget(r);
}

#[kani::proof]
#[kani::unwind(6)]
#[kani::stub(std::fmt::format, stub_fmt)]
fn c12_final_size_determin_s0() {
    determin_step::<0>();
}

#[kani::proof]
#[kani::unwind(6)]
#[kani::stub(std::fmt::format, stub_fmt)]
fn c12_final_size_determin_s1() {
    determin_step::<1>();
}

/// STREAM frame (FIN or not) on a SizeKnown stream, frame inside the window, final size anywhere:
/// Err(FinalSize) iff the frame carries data beyond the final size, or carries FIN with a
/// different final size; otherwise accepted, fresh == growth of the high-water mark, and
/// `is_all_rcvd` iff the contiguous prefix reaches the final size.
fn known_recv_step<const SEGS: usize>() {
    let (mut sk, buffered) = any_size_known::<SEGS>();
    let final_size = sk.final_size;
    let off: u64 = kani::any();
    let len: u64 = kani::any();
    kani::assume(off <= W && len <= W - off);
    let fin: bool = kani::any();
    let mut frame = StreamFrame::new(sk.stream_id, off, len as usize);
    frame.set_eos_flag(fin);
    let end = off + len;
    let res = sk.recv(frame, content(off, end));
    assert!(sk.final_size == final_size, "a known final size never changes");
    let contradiction = end > final_size || (fin && end != final_size);
    match res {
        Err(e) => {
            assert!(contradiction, "FINAL_SIZE_ERROR only for a contradiction");
            assert!(e.kind() == ErrorKind::FinalSize);
            assert!(e.frame_type() == ErrorFrameType::V1(frame.frame_type()));
            assert!(sk.rcvbuf.largest_offset() == buffered, "a rejected frame stores nothing");
            kani::cover!(end > final_size && !fin, "data beyond the final size");
            kani::cover!(fin && end < final_size, "second FIN with a smaller final size");
            core::mem::forget(e);
        }
        Ok(fresh) => {
            assert!(!contradiction, "a contradicting frame is never accepted");
            let nb = sk.rcvbuf.largest_offset();
            assert!(nb == if len > 0 && end > buffered { end } else { buffered });
            assert!(fresh as u64 == nb - buffered);
            assert!(nb <= final_size, "nothing is ever buffered beyond the final size");
            assert!(sk.is_all_rcvd() == (sk.rcvbuf.nread() + sk.rcvbuf.available() == final_size));
            kani::cover!(fin && end == final_size, "repeated FIN with the same final size");
            kani::cover!(sk.is_all_rcvd() && fresh > 0, "last missing bytes arrived");
            kani::cover!(!fin && end == final_size, "data up to exactly the final size");
        }
    }
    core::mem::forget(sk);
}

#[kani::proof]
#[kani::unwind(6)]
#[kani::stub(std::fmt::format, stub_fmt)]
fn c12_final_size_known_recv_s0() {
    known_recv_step::<0>();
}

#[kani::proof]
#[kani::unwind(6)]
#[kani::stub(std::fmt::format, stub_fmt)]
fn c12_final_size_known_recv_s1() {
    known_recv_step::<1>();
}

/// Full-width rejection on a SizeKnown stream: any parser-producible frame that contradicts the
/// final size is rejected with FINAL_SIZE_ERROR and stores nothing.
#[kani::proof]
#[kani::unwind(6)]
#[kani::stub(std::fmt::format, stub_fmt)]
fn c12_final_size_known_reject_full_width() {
    let (mut sk, buffered) = any_size_known::<0>();
    let final_size = sk.final_size;
    let off: u64 = kani::any();
    let len: u64 = kani::any();
    kani::assume(len <= W && off <= VARINT_MAX - len);
    let fin: bool = kani::any();
    let end = off + len;
    kani::assume(end > final_size || (fin && end != final_size));
    let mut frame = StreamFrame::new(sk.stream_id, off, len as usize);
    frame.set_eos_flag(fin);
    match sk.recv(frame, content(0, len)) {
        Err(e) => {
            assert!(e.kind() == ErrorKind::FinalSize);
            assert!(e.frame_type() == ErrorFrameType::V1(frame.frame_type()));
            core::mem::forget(e);
        }
        Ok(_) => panic!("a frame contradicting the final size was accepted"),
    }
    assert!(sk.final_size == final_size && sk.rcvbuf.largest_offset() == buffered);
    kani::cover!(fin && end < final_size && final_size > (1u64 << 61), "FIN shrinking a full-width final size");
    kani::cover!(!fin && end == final_size + 1, "one byte beyond the final size");
    core::mem::forget(sk);
}

/// RESET_STREAM, every final size:
/// * before the size is known (`Recv::recv_reset`): Err(FinalSize, RESET_STREAM) iff the final
///   size is below the largest offset received; otherwise Ok(final - largest): the bytes never
///   seen that still count against the connection limit;
/// * once known (`SizeKnown::recv_reset`): Err(FinalSize) iff the sizes differ.
/// A parked reader is woken iff the reset is accepted.
#[kani::proof]
#[kani::unwind(6)]
#[kani::stub(std::fmt::format, stub_fmt)]
fn c12_final_size_reset_step() {
    let fs: u64 = kani::any();
    let code: u64 = kani::any();
    kani::assume(fs <= VARINT_MAX && code <= VARINT_MAX);
    if kani::any() {
        let (mut r, _buffered) = any_recv::<0>();
        let largest = r.largest;
        let had_waker = r.read_waker.is_some();
        let reset = ResetStreamFrame::new(r.stream_id, VarInt::from_u64(code).unwrap(), VarInt::from_u64(fs).unwrap());
        match r.recv_reset(&reset) {
            Err(e) => {
                assert!(fs < largest, "FINAL_SIZE_ERROR only if the reset's final size is below received data");
                assert!(e.kind() == ErrorKind::FinalSize);
                assert!(e.frame_type() == ErrorFrameType::V1(qbase::frame::FrameType::ResetStream));
                assert!(unsafe { WAKED } == 0);
                kani::cover!(fs + 1 == largest, "reset one byte short");
                core::mem::forget(e);
            }
            Ok(sync) => {
                assert!(fs >= largest);
                assert!(sync as u64 == fs - largest, "unseen bytes up to the final size are charged to the connection");
                assert!(unsafe { WAKED } == if had_waker { 1 } else { 0 });
                kani::cover!(fs == largest, "reset exactly at the high-water mark");
                kani::cover!(fs > largest && fs > (1u64 << 61), "full-width final size");
            }
        }
        assert!(r.largest == largest);
        core::mem::forget(r);
    } else {
        let (mut sk, _buffered) = any_size_known::<0>();
        let known = sk.final_size;
        let had_waker = sk.read_waker.is_some();
        let reset = ResetStreamFrame::new(sk.stream_id, VarInt::from_u64(code).unwrap(), VarInt::from_u64(fs).unwrap());
        match sk.recv_reset(&reset) {
            Err(e) => {
                assert!(fs != known, "FINAL_SIZE_ERROR only if the reset changes the final size");
                assert!(e.kind() == ErrorKind::FinalSize);
                assert!(e.frame_type() == ErrorFrameType::V1(qbase::frame::FrameType::ResetStream));
                assert!(unsafe { WAKED } == 0);
                kani::cover!(fs > known, "reset with a larger final size");
                kani::cover!(fs < known, "reset with a smaller final size");
                core::mem::forget(e);
            }
            Ok(()) => {
                assert!(fs == known);
                assert!(unsafe { WAKED } == if had_waker { 1 } else { 0 });
            }
        }
        assert!(sk.final_size == known);
        core::mem::forget(sk);
    }
}
