// Helper compiled inside qrecovery::send::outgoing (overlay, cfg(kani) only). NO proof fn here.
// Property C11, stream-set level: lets the DataStreams harnesses (c11s_streams.rs) look at the
// sender a table entry wraps (`Outgoing`'s field is private to this module). Read-only.
use super::*;

impl<TX> Outgoing<TX> {
    pub(crate) fn c11s_sender(&self) -> &ArcSender<TX> {
        &self.0
    }
}
