// Kani harnesses compiled inside qrecovery::recv::recver (overlay, cfg(kani) only).
// Property C17, receiving half of a stream: from EVERY state of the receiver state machine
// (Recv / SizeKnown / DataRcvd / ResetRcvd / DataRead / ResetRead, reader parked or not), after
// `Incoming::on_conn_error(e1)`:
//   * a parked reader has been woken exactly once,
//   * the shared state of a stream that was still receiving is the connection error e1 — which is
//     what `Reader::poll_read / poll_next` return first thing — and a second on_conn_error(e2)
//     neither replaces it nor wakes anybody,
//   * frames that still arrive for the stream are ignored (nothing is delivered any more),
//   * a stream whose data had completely arrived (DataRcvd / DataRead) or that was reset keeps its
//     final state: its reader never blocks (no waker can be parked in those states).
use qbase::{
    error::{ErrorKind, QuicError as QErr},
    role::Role,
    sid::Dir,
};

use super::*;
use crate::recv::incoming::Incoming;

include!("../qbase/wake_common.rs");
use vwk::{waker, wakes};

static SEQ: [u8; 8] = [0, 1, 2, 3, 4, 5, 6, 7];

#[derive(Clone, Debug)]
struct Broker;
static mut SENT: u32 = 0;
impl SendFrame<MaxStreamDataFrame> for Broker {
    fn send_frame<I: IntoIterator<Item = MaxStreamDataFrame>>(&self, iter: I) {
        for _f in iter {
            unsafe { SENT += 1 };
        }
    }
}
impl SendFrame<StopSendingFrame> for Broker {
    fn send_frame<I: IntoIterator<Item = StopSendingFrame>>(&self, iter: I) {
        for _f in iter {
            unsafe { SENT += 1 };
        }
    }
}

fn stub_mutex_lock<T: ?Sized>(m: &std::sync::Mutex<T>) -> std::sync::LockResult<std::sync::MutexGuard<'_, T>> {
    match m.try_lock() {
        Ok(g) => Ok(g),
        Err(std::sync::TryLockError::Poisoned(p)) => Err(p),
        Err(std::sync::TryLockError::WouldBlock) => panic!("self-deadlock: mutex already held"),
    }
}
fn stub_fmt(_a: core::fmt::Arguments<'_>) -> String {
    String::new()
}
fn stub_slice_index_fail(_s: usize, _e: usize, _l: usize) -> ! {
    panic!("slice index out of range")
}

/// CBMC cannot constant-fold the state behind `Arc<Mutex<..>>`, so it walks every arm of every
/// `match` on the receiver state. The data paths that cannot run once the state is the connection
/// error (or a final state) are replaced by stubs that FAIL when reached.
fn stub_recv_recv<TX>(_r: &mut Recv<TX>, _f: StreamFrame, _b: Bytes) -> Result<usize, QuicError> {
    panic!("data path reached after the connection error")
}
fn stub_known_recv<TX>(_r: &mut SizeKnown<TX>, _f: StreamFrame, _b: Bytes) -> Result<usize, QuicError> {
    panic!("data path reached after the connection error")
}
fn stub_determin<TX: Clone>(_r: &mut Recv<TX>, _f: &StreamFrame) -> Result<SizeKnown<TX>, QuicError> {
    panic!("data path reached after the connection error")
}

fn any_kind() -> ErrorKind {
    let k: u8 = kani::any();
    match k % 6 {
        0 => ErrorKind::Internal,
        1 => ErrorKind::FlowControl,
        2 => ErrorKind::ProtocolViolation,
        3 => ErrorKind::FinalSize,
        4 => ErrorKind::None,
        _ => ErrorKind::StreamLimit,
    }
}
fn conn_error(kind: ErrorKind) -> Error {
    Error::Quic(QErr::with_default_fty(kind, "x"))
}
fn any_sid() -> StreamId {
    let id: u64 = kani::any();
    kani::assume(id < (1u64 << 60));
    StreamId::new(
        if kani::any() { Role::Client } else { Role::Server },
        if kani::any() { Dir::Bi } else { Dir::Uni },
        id,
    )
}

fn any_rcvbuf() -> rcvbuf::RecvBuf {
    let mut b = rcvbuf::RecvBuf::default();
    if kani::any() {
        // one stored fragment that is not yet readable (a reader can be parked)
        b.recv(2, Bytes::from_static(&SEQ).slice(2..5));
    }
    b
}

fn any_state<const KIND: u8>(parked: bool) -> Recver<Broker> {
    let sid = any_sid();
    let w = if parked { Some(waker(0)) } else { None };
    match KIND {
        0 => {
            let max_stream_data: u64 = kani::any();
            let largest: u64 = kani::any();
            kani::assume(5 <= largest && largest <= max_stream_data && max_stream_data <= VARINT_MAX);
            Recver::Recv(Recv {
                stream_id: sid,
                rcvbuf: any_rcvbuf(),
                read_waker: w,
                stop_state: if kani::any() { Some(7) } else { None },
                broker: Broker,
                largest,
                max_stream_data,
            })
        }
        1 => {
            let final_size: u64 = kani::any();
            kani::assume(5 <= final_size && final_size <= VARINT_MAX);
            Recver::SizeKnown(SizeKnown {
                stream_id: sid,
                rcvbuf: any_rcvbuf(),
                read_waker: w,
                stop_state: if kani::any() { Some(7) } else { None },
                broker: Broker,
                final_size,
            })
        }
        2 => {
            let mut b = rcvbuf::RecvBuf::default();
            if kani::any() {
                b.recv(0, Bytes::from_static(&SEQ).slice(0..5));
            }
            Recver::DataRcvd(DataRcvd { stream_id: sid, rcvbuf: b })
        }
        3 => Recver::ResetRcvd(ResetStreamFrame::new(sid, VarInt::from_u32(1), VarInt::from_u32(5))),
        4 => Recver::DataRead,
        _ => Recver::ResetRead(ResetStreamError::new(VarInt::from_u32(1), VarInt::from_u32(5))),
    }
}

fn kind_of(r: &Recver<Broker>) -> u8 {
    match r {
        Recver::Recv(_) => 0,
        Recver::SizeKnown(_) => 1,
        Recver::DataRcvd(_) => 2,
        Recver::ResetRcvd(_) => 3,
        Recver::DataRead => 4,
        Recver::ResetRead(_) => 5,
    }
}

fn poison_step<const KIND: u8>() {
    // only a stream that is still receiving can have a parked reader
    let parked: bool = if KIND <= 1 { kani::any() } else { false };
    let arc = ArcRecver(Arc::new(Mutex::new(Ok(any_state::<KIND>(parked)))));
    let incoming = Incoming::new(arc.clone());
    let k1 = any_kind();
    let k2 = any_kind();
    kani::assume(k1 != k2);

    incoming.on_conn_error(&conn_error(k1));
    assert!(wakes(0) == if parked { 1 } else { 0 }, "the parked reader is woken exactly once");
    incoming.on_conn_error(&conn_error(k2));
    assert!(wakes(0) == if parked { 1 } else { 0 }, "a second connection error wakes nobody");

    let check = |arc: &ArcRecver<Broker>| {
        let guard = arc.recver();
        match &*guard {
            Err(e) => {
                assert!(KIND <= 1, "only a stream that was still receiving is poisoned");
                assert!(e.kind() == k1, "the first connection error is the one every later Reader operation returns");
            }
            Ok(s) => {
                assert!(KIND >= 2, "a receiving stream must be poisoned");
                assert!(kind_of(s) == KIND, "a completely received / reset stream keeps its final state");
            }
        }
    };
    check(&arc);
    // late frames are ignored
    let sid = any_sid();
    let mut frame = StreamFrame::new(sid, 0, 2);
    frame.set_eos_flag(kani::any());
    match incoming.recv_data(frame, Bytes::from_static(&SEQ).slice(0..2)) {
        Ok((into_rcvd, fresh)) => assert!(!into_rcvd && fresh == 0, "nothing is delivered after the connection error"),
        Err(e) => {
            core::mem::forget(e);
            panic!("a frame for a dead stream is ignored, not an error");
        }
    }
    if KIND <= 1 {
        // (on a finished stream a RESET_STREAM cannot arrive: the real code marks that unreachable)
        match incoming.recv_reset(ResetStreamFrame::new(sid, VarInt::from_u32(1), VarInt::from_u32(9))) {
            Ok(n) => assert!(n == 0),
            Err(e) => {
                core::mem::forget(e);
                panic!("a reset for a dead stream is ignored");
            }
        }
    }
    check(&arc);
    assert!(unsafe { SENT } == 0, "no frame is queued");
    kani::cover!(parked || KIND >= 2, "reader parked");
    core::mem::forget(incoming);
    core::mem::forget(arc);
}

macro_rules! poison_harness {
    ($name:ident, $k:literal) => {
        #[kani::proof]
        #[kani::unwind(6)]
        #[kani::stub(std::sync::Mutex::lock, stub_mutex_lock)]
        #[kani::stub(alloc::fmt::format, stub_fmt)]
        #[kani::stub(core::slice::index::slice_index_fail, stub_slice_index_fail)]
        #[kani::stub(Recv::recv, stub_recv_recv)]
        #[kani::stub(SizeKnown::recv, stub_known_recv)]
        #[kani::stub(Recv::determin_size, stub_determin)]
        fn $name() {
            poison_step::<$k>();
        }
    };
}

poison_harness!(c17_incoming_poison_recv, 0);
// NOT REGISTERED (unmeasured / too slow on the shared machine): the same step for SizeKnown, DataRcvd,
// ResetRcvd, DataRead, ResetRead (`poison_harness!(name, 1..=5)`).
