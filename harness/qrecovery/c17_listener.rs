// Kani harness compiled inside qrecovery::streams::listener (overlay, cfg(kani) only).
// Property C17, stream listener: from a listener with empty queues (a task can only be parked on an
// empty queue) and any combination of parked accept_bi / accept_uni tasks, after
// `ListenerGuard::on_conn_error(e1)`: both parked tasks have been woken exactly once, the
// listener is the error e1 (`guard()`, `poll_accept_uni_stream` return it; `poll_accept_bi_stream`
// matches the same shared state first), queued streams are dropped.
use core::task::Poll;

use qbase::{
    error::ErrorKind,
    role::Role,
    sid::Dir,
};

use super::*;

include!("../qbase/wake_common.rs");
use vwk::{waker, wakes};

#[derive(Clone, Debug)]
struct Broker;
impl SendFrame<ResetStreamFrame> for Broker {
    fn send_frame<I: IntoIterator<Item = ResetStreamFrame>>(&self, _iter: I) {}
}
impl SendFrame<qbase::frame::StopSendingFrame> for Broker {
    fn send_frame<I: IntoIterator<Item = qbase::frame::StopSendingFrame>>(&self, _iter: I) {}
}
impl SendFrame<qbase::frame::MaxStreamDataFrame> for Broker {
    fn send_frame<I: IntoIterator<Item = qbase::frame::MaxStreamDataFrame>>(&self, _iter: I) {}
}

fn stub_mutex_lock<T: ?Sized>(m: &std::sync::Mutex<T>) -> std::sync::LockResult<std::sync::MutexGuard<'_, T>> {
    match m.try_lock() {
        Ok(g) => Ok(g),
        Err(std::sync::TryLockError::Poisoned(p)) => Err(p),
        Err(std::sync::TryLockError::WouldBlock) => panic!("self-deadlock: mutex already held"),
    }
}
fn stub_fmt(_a: core::fmt::Arguments<'_>) -> String {
    String::new()
}
fn stub_write(_o: &mut dyn core::fmt::Write, _a: core::fmt::Arguments<'_>) -> core::fmt::Result {
    Ok(())
}

fn stub_tr_interest(_c: &'static tracing::callsite::DefaultCallsite) -> tracing::subscriber::Interest {
    tracing::subscriber::Interest::never()
}
fn stub_tr_enabled(_m: &tracing::Metadata<'static>, _i: tracing::subscriber::Interest) -> bool {
    false
}
fn stub_tr_dispatch<'a: 'a>(_m: &'static tracing::Metadata<'static>, _f: &'a tracing::field::ValueSet<'_>) {}

/// `Reader::new` captures the current tracing / qlog spans (thread-locals, dispatcher): not encodable
/// (kani-compiler ICE). After a connection error no Reader is ever created, so the stub only has
/// to exist; reaching it is reported.
fn stub_reader_new<TX>(_inner: ArcRecver<TX>) -> Reader<TX> {
    panic!("a Reader was created after the connection error")
}

fn any_kind() -> ErrorKind {
    let k: u8 = kani::any();
    match k % 4 {
        0 => ErrorKind::Internal,
        1 => ErrorKind::FlowControl,
        2 => ErrorKind::ProtocolViolation,
        _ => ErrorKind::None,
    }
}
fn conn_error(kind: ErrorKind) -> QuicError {
    QuicError::Quic(qbase::error::QuicError::with_default_fty(kind, "x"))
}

#[kani::proof]
#[kani::unwind(6)]
#[kani::stub(std::sync::Mutex::lock, stub_mutex_lock)]
#[kani::stub(std::fmt::format, stub_fmt)]
#[kani::stub(core::fmt::write, stub_write)]
#[kani::stub(tracing::callsite::DefaultCallsite::interest, stub_tr_interest)]
#[kani::stub(tracing::__macro_support::__is_enabled, stub_tr_enabled)]
#[kani::stub(tracing::Event::dispatch, stub_tr_dispatch)]
#[kani::stub(crate::recv::Reader::new, stub_reader_new)]
fn c17_listener_poison() {
    let listener: ArcListener<Broker> = ArcListener::new();
    let bi_parked: bool = kani::any();
    let uni_parked: bool = kani::any();
    {
        let mut g = listener.0.lock().unwrap();
        let l = g.as_mut().unwrap();
        if bi_parked {
            l.bi_waker = Some(waker(0));
        }
        if uni_parked {
            l.uni_waker = Some(waker(1));
        }
    }
    let k1 = any_kind();

    match listener.guard() {
        Ok(mut g) => g.on_conn_error(&conn_error(k1)),
        Err(_) => panic!("live listener"),
    }

    assert!(wakes(0) == if bi_parked { 1 } else { 0 }, "a task parked in accept_bi_stream is woken exactly once");
    assert!(wakes(1) == if uni_parked { 1 } else { 0 }, "a task parked in accept_uni_stream is woken exactly once");
    match listener.guard() {
        Err(e) => {
            assert!(e.kind() == k1, "the listener is poisoned with the connection error (a second on_conn_error cannot even obtain the guard)");
            core::mem::forget(e);
        }
        Ok(g) => {
            core::mem::forget(g);
            panic!("listener must be poisoned");
        }
    }
    let w = waker(2);
    let mut cx = Context::from_waker(&w);
    match listener.poll_accept_uni_stream(&mut cx) {
        Poll::Ready(Err(e)) => {
            assert!(e.kind() == k1, "accept completes immediately with the connection error; streams that were queued are not handed out");
            core::mem::forget(e);
        }
        _ => panic!("accept after the connection error must complete with the error"),
    }
    {
        let g = listener.0.lock().unwrap();
        assert!(matches!(&*g, Err(e) if e.kind() == k1), "shared state == the error: poll_accept_bi_stream returns it first thing");
    }
    assert!(wakes(2) == 0);
    kani::cover!(bi_parked && uni_parked, "both acceptors parked");
    core::mem::forget(listener);
}
