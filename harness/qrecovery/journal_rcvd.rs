// Kani harnesses compiled inside qrecovery::journal::rcvd (overlay, cfg(kani) only).
// std HashSet (rcvd.rs) and the VecDeque inside qbase's IndexDeque are replaced by verif_model.
//
// C10: gen_ack_frame_util is truthful / complete / fits its capacity / reports the requested largest;
//      a packet number is accepted at most once (decode_pn + on_rcvd_pn); rotate_queue drops only
//      records that may be forgotten.
// C07: decode_pn never returns Ok for a number already registered.
// C04: the number of placeholder records one received packet number makes on_rcvd_pn allocate.
use super::*;
use qbase::frame::EncodeSize;

// ---- clock -------------------------------------------------------------------------------------
#[repr(C)]
struct RawTs {
    s: i64,
    n: u32,
}

/// An `Instant` `secs` seconds after an arbitrary epoch (layout of std's unix Timespec:
/// {tv_sec: i64, tv_nsec: u32 < 10^9}; `c10_clock_model_sane` checks that the arithmetic agrees).
fn mk_instant(secs: u64) -> Instant {
    let std_i: std::time::Instant = unsafe { core::mem::transmute(RawTs { s: secs as i64, n: 0 }) };
    Instant::from_std(std_i)
}

const T_MAX: u64 = 1u64 << 40;

fn any_secs() -> u64 {
    let s: u64 = kani::any();
    kani::assume(s < T_MAX);
    s
}

fn any_instant() -> Instant {
    mk_instant(any_secs())
}

/// Stub for tokio::time::Instant::now: the harness-controlled current time (an arbitrary value
/// chosen by `set_any_now`, constant until the harness changes it).
static mut NOW_SECS: u64 = 0;

fn stub_now() -> Instant {
    mk_instant(unsafe { NOW_SECS })
}

/// Stubs for tokio::time::Instant::elapsed (gen_ack_frame_util's ACK delay): concrete durations.
/// (Symbolic Instant subtraction + the u128 `as_micros` makes CBMC time out; the four instances
/// cover the four varint widths of the ACK Delay field.)
fn stub_elapsed_0(_this: &Instant) -> Duration {
    Duration::new(0, 0)
}
fn stub_elapsed_100us(_this: &Instant) -> Duration {
    Duration::new(0, 100_000)
}
fn stub_elapsed_1s(_this: &Instant) -> Duration {
    Duration::new(1, 0)
}
fn stub_elapsed_5000s(_this: &Instant) -> Duration {
    Duration::new(5000, 0)
}

fn set_any_now() -> u64 {
    let s: u64 = kani::any();
    kani::assume(s < T_MAX);
    unsafe { NOW_SECS = s };
    s
}

#[kani::proof]
fn c10_clock_model_sane() {
    let a: u64 = kani::any();
    let d: u64 = kani::any();
    kani::assume(a < T_MAX && d < T_MAX);
    let ia = mk_instant(a);
    let ib = mk_instant(a + d);
    assert!(ia + Duration::from_secs(d) == ib);
    assert!((ia < ib) == (d > 0));
    kani::cover!(d > 5);
}

// ---- pre-states --------------------------------------------------------------------------------
const EMPTY: u8 = 0;
const RCVD: u8 = 1;
const CONFIRMED: u8 = 2;
const SENT: u8 = 3;

/// A record of symbolic kind. `tag` is the packet number stored in an AckSent record's set.
fn any_state(kinds: u8, tag: u64) -> (State, u8) {
    let k: u8 = kani::any();
    kani::assume(k < kinds);
    let st = match k {
        EMPTY => State::Empty,
        RCVD => {
            let eliciting: bool = kani::any();
            State::PacketReceived(any_instant(), if eliciting { Some(any_instant()) } else { None }, any_instant())
        }
        CONFIRMED => State::AckConfirmed(kani::any(), any_instant(), any_instant()),
        _ => State::AckSent(kani::any(), any_instant(), any_instant(), [tag].into()),
    };
    (st, k)
}

const M62: u64 = 1u64 << 62;

/// A journal whose window holds exactly N records of symbolic kinds at a symbolic offset.
/// Representation invariant of real histories: the newest record is never Empty (records are only
/// appended by on_rcvd_pn, which stores PacketReceived last, and only removed from the front).
fn any_journal<const N: usize>(kinds: u8, tag: u64) -> (RcvdJournal, [u8; N]) {
    let mut j = RcvdJournal::default();
    let mut ks = [EMPTY; N];
    let mut i = 0;
    while i < N {
        let (st, k) = any_state(kinds, tag);
        ks[i] = k;
        // pushed at the concrete offset 0 so that IndexDeque::push_back's limit test is decided
        // during symbolic execution and the shape of the model deque stays concrete
        j.queue.push_back(st).unwrap();
        i += 1;
    }
    let off: u64 = kani::any();
    kani::assume(off < M62 - 16);
    j.queue.reset_offset(off); // symbolic 62-bit window position
    if N > 0 {
        kani::assume(ks[N - 1] != EMPTY);
    }
    let has_delay: bool = kani::any();
    j.max_ack_delay = if has_delay {
        let ms: u64 = kani::any();
        kani::assume(ms < (1 << 14));
        Some(Duration::from_millis(ms))
    } else {
        None
    };
    (j, ks)
}

fn kind_of(s: &State) -> u8 {
    match s {
        State::Empty => EMPTY,
        State::PacketReceived(..) => RCVD,
        State::AckConfirmed(..) => CONFIRMED,
        State::AckSent(..) => SENT,
    }
}

fn kind_at<const N: usize>(off: u64, ks: &[u8; N], x: u64) -> u8 {
    if x >= off && x - off < N as u64 { ks[(x - off) as usize] } else { EMPTY }
}

/// Does the frame acknowledge x? RFC 9000 §19.3.1 semantics, which `AckFrame::iter` implements for
/// well-formed frames (c10_ack_iter_semantics_*); written with a constant-trip loop so that a frame
/// with a symbolic number of ranges stays cheap. Also asserts the frame is well-formed.
fn frame_acks(f: &AckFrame, x: u64) -> bool {
    let largest = f.largest();
    assert!(f.first_range() <= largest, "well-formed: first range does not pass zero");
    let mut smallest = largest - f.first_range();
    let mut hit = x >= smallest && x <= largest;
    let n = f.ranges().len();
    assert!(n <= 3);
    let mut i = 0;
    while i < 3 {
        if i < n {
            let gap = f.ranges()[i].0.into_u64();
            let len = f.ranges()[i].1.into_u64();
            assert!(gap + 2 <= smallest && len <= smallest - gap - 2, "well-formed: range does not pass zero");
            let hi = smallest - gap - 2;
            smallest = hi - len;
            if x >= smallest && x <= hi {
                hit = true;
            }
        }
        i += 1;
    }
    hit
}

/// Encoded size of the frame computed field by field (== EncodeSize::encoding_size, which
/// put_frame obeys: C05).
fn frame_size(f: &AckFrame) -> usize {
    let n = f.ranges().len();
    let mut sz = 1 + VarInt::from_u64(f.largest()).unwrap().encoding_size()
        + VarInt::from_u64(f.delay()).unwrap().encoding_size()
        + VarInt::from_u64(n as u64).unwrap().encoding_size()
        + VarInt::from_u64(f.first_range()).unwrap().encoding_size();
    let mut i = 0;
    while i < 3 {
        if i < n {
            sz += f.ranges()[i].0.encoding_size() + f.ranges()[i].1.encoding_size();
        }
        i += 1;
    }
    sz
}

// ---- C10: gen_ack_frame_util -------------------------------------------------------------------
// Measured: a symbolic emptiness pattern (or a symbolic window offset, which makes every
// `pktno > largest` test symbolic) leaves the reverse iterator of the window in a symbolic position
// after the first `break`, and CBMC does not finish even for 2 records (> 450 s in symex).
// The shape of the window (which records are Empty / PacketReceived / AckSent / AckConfirmed, where
// the window starts, which record is `largest`) is therefore CONCRETE per harness instance; the
// capacity, the carrying packet number, the previously recorded carrier and the probe are symbolic.
fn state_of_kind(k: u8, tag: u64) -> State {
    match k {
        EMPTY => State::Empty,
        RCVD => State::PacketReceived(mk_instant(5), if kani::any() { Some(mk_instant(6)) } else { None }, mk_instant(9)),
        CONFIRMED => State::AckConfirmed(kani::any(), mk_instant(5), mk_instant(9)),
        _ => State::AckSent(kani::any(), mk_instant(5), mk_instant(9), [tag].into()),
    }
}

fn gen_ack_case<const N: usize, const DELAY_US: u64>(ks: [u8; N], li: usize, off: u64, cap: Option<usize>) {
    let pn: u64 = kani::any(); // number of the packet that will carry the frame
    kani::assume(pn < M62);
    let tag: u64 = kani::any(); // an earlier packet that carried an ACK
    kani::assume(tag < pn);
    let mut j = RcvdJournal::default();
    let mut i = 0;
    while i < N {
        j.queue.push_back(state_of_kind(ks[i], tag)).unwrap();
        i += 1;
    }
    j.queue.reset_offset(off);
    // precondition: the requested largest is a registered (received) number inside the window
    assert!(li < N && ks[li] != EMPTY && ks[N - 1] != EMPTY);
    let largest = off + li as u64;
    let capacity: usize = match cap {
        Some(c) => c,
        None => {
            let c: usize = kani::any();
            kani::assume(c <= 64);
            c
        }
    };
    let had_marker: bool = kani::any();
    let marker_pn: u64 = kani::any();
    j.earliest_not_ack_time = if had_marker { Some((marker_pn, mk_instant(5))) } else { None };
    let x: u64 = kani::any(); // probe packet number

    let res = j.gen_ack_frame_util(pn, largest, mk_instant(7), capacity);

    // the window itself is never restructured by generating a frame
    assert!(j.queue.offset() == off && j.queue.len() == N);
    let kx_after = j.queue.get(x).map(kind_of).unwrap_or(EMPTY);
    let kx = kind_at(off, &ks, x);
    assert!((kx == EMPTY) == (kx_after == EMPTY), "generating an ACK never invents or forgets a reception");
    // number of additional ranges a complete frame needs: maximal runs below the first one
    let mut runs = 0usize;
    let mut first_lo = li;
    while first_lo > 0 && ks[first_lo - 1] != EMPTY {
        first_lo -= 1;
    }
    let mut k = first_lo;
    while k > 0 {
        k -= 1;
        if ks[k] != EMPTY && (k + 1 == first_lo || ks[k + 1] == EMPTY) {
            runs += 1;
        }
    }
    let min_len = 1 + VarInt::from_u64(largest).unwrap().encoding_size()
        + VarInt::from_u64(DELAY_US).unwrap().encoding_size() + 1 + 1;
    kani::cover!(cap.is_some() || res.is_err(), "capacity below the mandatory fields");
    match res {
        Err(sig) => {
            assert!(sig == Signals::CONGESTION);
            assert!(capacity < min_len, "Err exactly when the mandatory fields do not fit");
        }
        Ok(f) => {
            assert!(f.largest() == largest, "reports the requested largest number");
            assert!(frame_size(&f) <= capacity, "fits the space it was told it has");
            if cap.is_some() {
                assert!(f.encoding_size() == frame_size(&f));
            }
            assert!(f.ecn().is_none());
            assert!(f.delay() == DELAY_US, "ACK Delay == time since reception in microseconds");
            let acked = frame_acks(&f, x);
            if acked {
                assert!(x >= off && x <= largest);
                assert!(kx != EMPTY, "truthful: acknowledges only numbers really received");
                // bookkeeping: the record remembers which packet carried its acknowledgement
                match j.queue.get(x).unwrap() {
                    State::AckSent(_, _, _, pns) => assert!(pns.contains(&pn)),
                    State::AckConfirmed(..) => assert!(kx == CONFIRMED),
                    _ => panic!("acknowledged record must be AckSent or AckConfirmed"),
                }
            }
            // first range: always the complete run of received numbers ending at `largest`
            assert!(f.first_range() == (li - first_lo) as u64, "first range is the maximal run ending at largest");
            assert!(f.ranges().len() <= runs);
            // complete when space allows (each additional range costs 2 bytes here; the code wants
            // one spare byte for the last one)
            if capacity >= min_len + 2 * runs + 1 {
                assert!(f.ranges().len() == runs);
                if x >= off && x <= largest && kx != EMPTY {
                    assert!(acked, "complete: every received number still tracked (<= largest) is acknowledged");
                }
            }
            assert!(j.packet_include_ack.contains(&pn), "the carrying packet is remembered");
            if had_marker {
                assert!(j.earliest_not_ack_time.is_none() == (largest >= marker_pn));
            }
            kani::cover!(f.ranges().len() == runs, "complete frame");
            kani::cover!(cap.is_some() || runs == 0 || f.ranges().len() < runs, "truncated by capacity");
            core::mem::forget(f);
        }
    }
    core::mem::forget(j);
}

// (i) ample capacity (64 bytes): the whole execution has a concrete structure.
//     Truthful + complete + exact first range + bookkeeping.
// MEASURED (second session): every instance whose pre-state contains an AckSent record in a window
// of >= 3 records (R.S.C, .RS.R, RCRSR, R.S), the 6-record window R.RR.R and the any-capacity
// instance .R.R exhaust memory (CBMC > 20 GB; the set model's insert writes at a symbolic length
// deep inside the window array). They were removed; AckSent is covered on a 1-record window.

/// C . . R R  : gap of two unreceived numbers, first range of two, 1-byte delay.
#[kani::proof]
#[kani::unwind(8)]
#[kani::stub(tokio::time::Instant::elapsed, stub_elapsed_0)]
fn c10_gen_ack_ample_wide_gap() {
    gen_ack_case::<5, 0>([CONFIRMED, EMPTY, EMPTY, RCVD, RCVD], 4, 0, Some(64));
}

// (i') the same on 3-record windows (cheap enough for the quick tier)

/// R . R (largest = newest): one additional range, closed by the start of the window.
#[kani::proof]
#[kani::unwind(8)]
#[kani::stub(tokio::time::Instant::elapsed, stub_elapsed_100us)]
fn c10_gen_ack_ample_n3_gap() {
    gen_ack_case::<3, 100>([RCVD, EMPTY, RCVD], 2, 61, Some(64));
}

/// A single AckSent record (an earlier ACK for it is in flight): it is acknowledged again and
/// remembers the new carrying packet as well.
#[kani::proof]
#[kani::unwind(8)]
#[kani::stub(tokio::time::Instant::elapsed, stub_elapsed_0)]
fn c10_gen_ack_ample_n1_sent() {
    gen_ack_case::<1, 0>([SENT], 0, 7, Some(64));
}

/// C R R with largest below the newest record: first range of one, nothing else.
#[kani::proof]
#[kani::unwind(8)]
#[kani::stub(tokio::time::Instant::elapsed, stub_elapsed_0)]
fn c10_gen_ack_ample_n3_inside() {
    gen_ack_case::<3, 0>([CONFIRMED, RCVD, RCVD], 1, 0, Some(64));
}

/// R R at the 1/2-byte varint boundary of Largest Acknowledged (62, 63 -> largest 62): one run.
#[kani::proof]
#[kani::unwind(8)]
#[kani::stub(tokio::time::Instant::elapsed, stub_elapsed_100us)]
fn c10_gen_ack_ample_n2_run() {
    gen_ack_case::<2, 100>([RCVD, RCVD], 1, 61, Some(64));
}

/// A single received number, EVERY capacity 0..=64: Err exactly when the five mandatory bytes do
/// not fit, otherwise a frame acknowledging exactly that number.
#[kani::proof]
#[kani::unwind(8)]
#[kani::stub(tokio::time::Instant::elapsed, stub_elapsed_0)]
fn c10_gen_ack_anycap_n1() {
    gen_ack_case::<1, 0>([RCVD], 0, 7, None);
}

// (ii) every capacity 0..=64 (symbolic) on 3-record windows: fits / Err-iff / truthful / truncation.

/// R . C : the additional range is closed by the end of the window.
#[kani::proof]
#[kani::unwind(8)]
#[kani::stub(tokio::time::Instant::elapsed, stub_elapsed_100us)]
fn c10_gen_ack_anycap_tail_range() {
    gen_ack_case::<3, 100>([RCVD, EMPTY, CONFIRMED], 2, 61, None);
}

// ---- C10 / C07: a packet number is accepted at most once ----------------------------------------
fn any_wire_pn() -> PacketNumber {
    let which: u8 = kani::any();
    let raw: u32 = kani::any();
    match which % 4 {
        0 => PacketNumber::U8(raw as u8),
        1 => PacketNumber::U16(raw as u16),
        2 => PacketNumber::U24(raw & 0x00ff_ffff), // what take_pn_len(3) produces
        _ => PacketNumber::U32(raw),
    }
}

/// C07 `rcvd_decode_dup` / C10: decode_pn == Ok(pn) implies pn is not registered and not below the
/// window; Err kinds are exact.
fn decode_step<const N: usize>() {
    let (mut j, ks) = any_journal::<N>(3, 0);
    let off = j.queue.offset();
    let enc = any_wire_pn();
    let expected = off + N as u64;
    let full = enc.decode(expected);
    let r = j.decode_pn(enc);
    assert!(j.queue.offset() == off && j.queue.len() == N, "decode_pn does not change the journal");
    match r {
        Ok(pn) => {
            assert!(pn == full && pn >= off);
            assert!(kind_at(off, &ks, pn) == EMPTY, "never Ok for a number already registered");
        }
        Err(InvalidPacketNumber::TooOld) => assert!(full < off),
        Err(InvalidPacketNumber::Duplicate) => assert!(full >= off && kind_at(off, &ks, full) != EMPTY),
        Err(InvalidPacketNumber::TooLarge) => panic!("decode_pn never reports TooLarge"),
    }
    kani::cover!(matches!(r, Ok(p) if p < expected), "fills a hole");
    kani::cover!(matches!(r, Ok(p) if p > expected), "jumps ahead");
    kani::cover!(N == 0 || matches!(r, Err(InvalidPacketNumber::Duplicate)), "duplicate");
    kani::cover!(matches!(r, Err(InvalidPacketNumber::TooOld)), "too old");
    core::mem::forget(j);
}

#[kani::proof]
#[kani::unwind(8)]
fn c07_rcvd_decode_dup_n0() {
    decode_step::<0>();
}

#[kani::proof]
#[kani::unwind(8)]
fn c07_rcvd_decode_dup_n4() {
    decode_step::<4>();
}

/// decode_pn -> on_rcvd_pn -> decode_pn of ANY second encoding: the registered number is never
/// accepted again, every earlier registration is still refused, nothing else changes.
fn accept_once_step<const N: usize>() {
    let (mut j, ks) = any_journal::<N>(3, 0);
    let off = j.queue.offset();
    let enc = any_wire_pn();
    let r = j.decode_pn(enc);
    kani::assume(r.is_ok());
    let pn = r.unwrap();
    // keep the window inside the model capacity; the growth is the subject of c04_rcvd_window_*
    kani::assume(pn - off < 6);
    let eliciting: bool = kani::any();
    let pto_ms: u64 = kani::any();
    kani::assume(pto_ms < (1 << 20));
    let x: u64 = kani::any();
    let kx = kind_at(off, &ks, x);

    j.on_rcvd_pn(pn, eliciting, Duration::from_millis(pto_ms));

    assert!(j.queue.offset() == off);
    let new_len = if pn - off < N as u64 { N as u64 } else { pn - off + 1 };
    assert!(j.queue.len() as u64 == new_len);
    match j.queue.get(pn) {
        Some(State::PacketReceived(_, ack_time, _)) => assert!(ack_time.is_some() == eliciting),
        _ => panic!("the number is registered as received"),
    }
    if x != pn {
        let after = j.queue.get(x).map(kind_of).unwrap_or(EMPTY);
        assert!(after == kx, "no other record changes (placeholders are Empty)");
    }
    if eliciting {
        assert!(j.earliest_not_ack_time.is_some());
    }
    // second arrival, any encoding
    let enc2 = any_wire_pn();
    let r2 = j.decode_pn(enc2);
    match r2 {
        Ok(p2) => {
            assert!(p2 != pn, "a packet number is accepted at most once");
            assert!(kind_at(off, &ks, p2) == EMPTY, "earlier registrations stay refused");
        }
        Err(_) => {}
    }
    kani::cover!(pn > off + N as u64, "arrival leaves a gap");
    kani::cover!(N < 2 || pn < off + N as u64, "arrival fills a hole");
    kani::cover!(matches!(r2, Ok(p2) if p2 < pn), "second arrival accepted below");
    kani::cover!(matches!(r2, Err(InvalidPacketNumber::Duplicate)), "second arrival refused as duplicate");
    core::mem::forget(j);
}

#[kani::proof]
#[kani::unwind(8)]
#[kani::stub(tokio::time::Instant::now, stub_now)]
fn c10_rcvd_accept_once_n0() {
    accept_once_step::<0>();
}

#[kani::proof]
#[kani::unwind(8)]
#[kani::stub(tokio::time::Instant::now, stub_now)]
fn c10_rcvd_accept_once_n1() {
    accept_once_step::<1>();
}

#[kani::proof]
#[kani::unwind(8)]
#[kani::stub(tokio::time::Instant::now, stub_now)]
fn c10_rcvd_accept_once_n3() {
    accept_once_step::<3>();
}

// ---- C10: expiry (rotate_queue) ----------------------------------------------------------------
/// rotate_queue removes exactly the longest prefix of records that may be forgotten: Empty ones and
/// acknowledged-and-confirmed ones that are non-eliciting or expired; a PacketReceived / AckSent
/// record (its ACK is not known to have arrived) is never dropped.
fn rotate_step<const N: usize>() {
    let (mut j, ks) = any_journal::<N>(4, 7);
    let off = j.queue.offset();
    let now = set_any_now();
    // harness-side oracle: may record i be forgotten at time `now`?
    let mut droppable = [false; N];
    let mut i = 0;
    while i < N {
        droppable[i] = match j.queue.get(off + i as u64).unwrap() {
            State::Empty => true,
            State::AckConfirmed(eliciting, _, expire) => !*eliciting || *expire < mk_instant(now),
            _ => false,
        };
        i += 1;
    }
    let mut expect = 0;
    while expect < N && droppable[expect] {
        expect += 1;
    }
    j.rotate_queue();
    assert!(j.queue.offset() == off + expect as u64, "exactly the droppable prefix is removed");
    assert!(j.queue.len() == N - expect);
    if let Some((_, st)) = j.queue.front() {
        assert!(kind_of(st) == ks[expect], "the first kept record is untouched");
    }
    kani::cover!(expect == 2 && ks[1] == CONFIRMED, "confirmed record expired or non-eliciting");
    kani::cover!(expect == 0 && ks[0] == CONFIRMED, "confirmed record kept (eliciting, not expired)");
    kani::cover!(expect == 1 && ks[1] == SENT, "stops at an unconfirmed record");
    kani::cover!(expect == N, "window emptied");
    core::mem::forget(j);
}

#[kani::proof]
#[kani::unwind(8)]
#[kani::stub(tokio::time::Instant::now, stub_now)]
fn c10_rcvd_rotate_n2() {
    rotate_step::<2>();
}

#[kani::proof]
#[kani::unwind(8)]
#[kani::stub(tokio::time::Instant::now, stub_now)]
fn c10_rcvd_rotate_n4() {
    rotate_step::<4>();
}

// ---- C04: growth of the receive window caused by ONE packet number ---------------------------------
/// Ghost cost: placeholder records `IndexDeque::insert(pn, _)` appends (`resize(pos, default)`),
/// the formula is tied to the real code by c10_index_deque_insert_* (len after == idx-offset+1) and
/// by c10_rcvd_accept_once_* (queue.len() after on_rcvd_pn).
fn placeholders(j: &RcvdJournal, pn: u64) -> u64 {
    if pn > j.queue.largest() { pn - j.queue.largest() } else { 0 }
}

fn window_growth<const N: usize>(max_pn_bytes: usize, bound: u64) {
    let (mut j, _ks) = any_journal::<N>(3, 0);
    let enc = any_wire_pn();
    kani::assume(enc.size() <= max_pn_bytes);
    let r = j.decode_pn(enc);
    kani::assume(r.is_ok());
    let pn = r.unwrap();
    let grow = placeholders(&j, pn);
    kani::cover!(grow > 100, "large jump accepted");
    assert!(grow <= bound, "records allocated for one received packet number <= bound");
    core::mem::forget(j);
}

/// pending (suspected genuine defect): a 4-byte packet number may jump the window by 2^31 records.
#[kani::proof]
#[kani::unwind(8)]
fn c04_rcvd_window_growth_any_pn() {
    window_growth::<2>(4, 1 << 16);
}

/// passing twin: with 1- and 2-byte encodings the jump is at most 2^15.
#[kani::proof]
#[kani::unwind(8)]
fn c04_rcvd_window_growth_short_pn() {
    window_growth::<2>(2, 1 << 15);
}

/// passing twin: the largest jump any encoding can cause is 2^31 (so the cost of one packet is
/// bounded by a constant, but that constant is 2^31 records of size_of::<State>() bytes).
#[kani::proof]
#[kani::unwind(8)]
fn c04_rcvd_window_growth_le_2p31() {
    window_growth::<2>(4, 1 << 31);
}
