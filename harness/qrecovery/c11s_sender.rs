// Kani harnesses compiled inside qrecovery::send::sender (overlay, cfg(kani) only).
// Property C11, stream-set level, part 1: WHICH bytes of an emitted STREAM frame are charged
// against the connection-level flow-control credit.
//
// One `pick_up` step of the REAL `SendingSender` / `DataSentSender` from a SYMBOLIC sender state:
// arbitrary colour map of the send buffer (representation invariant JS, see c11s_sndbuf.rs; NS
// boundaries, NC stored chunks, stream content inside a concrete 8-byte window, peer's stream window
// full width), arbitrary shutdown / FIN state, arbitrary space predicate (a function on two
// points), arbitrary flow limit.
// Oracle (independent, `SendBuf::c11s_expect_pick`): the offered range is the lowest Lost segment or
// the never-sent suffix; the frame is reported as FRESH exactly when its bytes were never sent
// before (colour Pending in the pre-state, checked pointwise with a symbolic probe) — in EVERY
// sender state, in particular in DataSent after `forget_sent_state()` (0-RTT rejected) —; fresh
// data is limited by the flow limit, a retransmission is not; the range never leaves the peer's
// stream window; FIN iff the frame ends at the final size.
// Two variants:
//   c11_s_real_*  the REAL `SendBuf::pick_up` runs on a small symbolic colour map (composite; expensive);
//   others        `SendBuf::pick_up` is replaced by its CONTRACT STUB (c11s_sndbuf.rs: any result the
//                 contract C09 proves for the real function allows, recorded); decided is what the
//                 Sender layer adds for EVERY buffer state: range, payload and the is_fresh flag are
//                 passed through UNCHANGED in every sender state, FIN / bare-FIN logic.
// c11_s_charge_*: the charge against the real connection-level controller (see the comment there).
use qbase::{role::Role, sid::Dir};

use super::*;
use crate::send::sndbuf::SendBuf as SB;

include!("../qbase/wake_common.rs");
use vwk::waker;

const LIM: u64 = VARINT_MAX;
const W: u64 = 8;
const PENDING: u8 = 0;
const FLIGHT: u8 = 1;
const LOST: u8 = 2;

#[derive(Clone, Debug)]
pub(crate) struct C11sBroker;
impl SendFrame<ResetStreamFrame> for C11sBroker {
    fn send_frame<I: IntoIterator<Item = ResetStreamFrame>>(&self, _iter: I) {}
}

static mut RAISED: u32 = 0;
fn stub_wake_all_by(_t: &ArcSendWakers, _s: Signals) {
    unsafe { RAISED += 1 };
}
fn stub_mutex_lock<T: ?Sized>(m: &std::sync::Mutex<T>) -> std::sync::LockResult<std::sync::MutexGuard<'_, T>> {
    match m.try_lock() {
        Ok(g) => Ok(g),
        Err(std::sync::TryLockError::Poisoned(p)) => Err(p),
        Err(std::sync::TryLockError::WouldBlock) => panic!("self-deadlock: mutex already held"),
    }
}
fn stub_fmt(_a: core::fmt::Arguments<'_>) -> String {
    String::new()
}
fn stub_slice_index_fail(_s: usize, _e: usize, _l: usize) -> ! {
    panic!("slice index out of range")
}

/// One shared handle on the path wakers that is never dropped (dropping the last handle would run
/// the drop glue of an empty BTreeMap<Pathway, _>).
static mut TX: Option<ArcSendWakers> = None;
#[allow(static_mut_refs)]
fn tx_handle() -> ArcSendWakers {
    unsafe {
        if TX.is_none() {
            TX = Some(ArcSendWakers::default());
        }
        TX.as_ref().unwrap().clone()
    }
}

/// (the stream id plays no role in flow control; it only shifts the space predicate)
fn the_sid() -> StreamId {
    StreamId::new(Role::Client, Dir::Bi, 1)
}

/// Expected outcome of the buffer-level pick-up: from the independent oracle on the pre-state
/// (REAL) or from what the contract stub returned (read AFTER the call).
fn expected<const REAL: bool, const NS: usize>(
    pre: (u8, u64, u64, bool),
) -> (u8, u64, u64, bool) {
    if REAL {
        pre
    } else {
        let (k, start, end, fresh, calls) = SB::c11s_stub_record();
        assert!(calls == 1, "the buffer is asked exactly once");
        if k == 1 { (0, start, end, fresh) } else { (2, 0, 0, false) }
    }
}

fn any_allow() -> Option<usize> {
    let a: Option<usize> = kani::any();
    if let Some(v) = a {
        // callers return None, never Some(0); small enough that start + allowance cannot overflow
        kani::assume(v >= 1 && v as u64 <= LIM);
    }
    a
}

fn data_len<const NC: usize>(data: &Vec<Bytes>) -> u64 {
    assert!(data.len() <= NC, "at most the stored chunks are handed out");
    let mut n = 0u64;
    let mut i = 0;
    while i < NC {
        if i < data.len() {
            n += data[i].len() as u64;
        }
        i += 1;
    }
    n
}

fn any_fin_state() -> FinState {
    match kani::any::<u8>() % 3 {
        0 => FinState::Sent,
        1 => FinState::Lost,
        _ => FinState::Rcvd,
    }
}
fn fin_code(f: &FinState) -> u8 {
    match f {
        FinState::Sent => 0,
        FinState::Lost => 1,
        FinState::Rcvd => 2,
    }
}

/// `sent()` of the pre-state computed from the shape: start of the never-sent suffix.
fn sent_of<const NS: usize>(offs: &[u64; NS], cols: &[u8; NS], size: u64) -> u64 {
    if NS > 0 && cols[NS - 1] == PENDING { offs[NS - 1] } else { size }
}

/// Common post-conditions of a data range [start, end) that was offered as `fresh`:
/// pointwise colour oracle with the probe x, window, flow limit, payload length.
fn check_offered(
    sndbuf: &SB,
    x: u64,
    before: u8,
    written: u64,
    max_data: u64,
    flow_limit: usize,
    start: u64,
    end: u64,
    fresh: bool,
) {
    assert!(start < end && end <= written, "a data frame carries written bytes");
    assert!(end <= max_data, "C11: the frame never leaves the stream window the peer advertised");
    if fresh {
        assert!(end - start <= flow_limit as u64, "C11: never-sent bytes never exceed the connection credit");
    }
    if x < written {
        if x >= start && x < end {
            assert!(
                fresh == (before == PENDING),
                "C11: a range counts as fresh data exactly when its bytes were never sent before"
            );
            assert!(fresh || before == LOST, "only never-sent or lost bytes are sent");
            assert!(sndbuf.c11s_color_at(x) == FLIGHT, "offered bytes are in flight afterwards (a second pick-up does not charge them again)");
        } else {
            assert!(sndbuf.c11s_color_at(x) == before, "bytes outside the frame keep their state");
        }
    }
}

// ------------------------------------------------------------------------------------------------
// Sending

fn sending_pick<const REAL: bool, const NS: usize, const NC: usize>() {
    let (sndbuf, offs, cols) = SB::c11s_any::<NS, NC>();
    let written = sndbuf.written();
    let max_data = sndbuf.max_data();
    let size = sndbuf.c11s_map_size();
    let sent = sent_of(&offs, &cols, size);
    assert!(sndbuf.sent() == sent);
    let shutdown: bool = kani::any();
    let mut s = SendingSender {
        stream_id: the_sid(),
        sndbuf,
        flush_waker: None,
        shutdown_waker: if shutdown { Some(waker(2)) } else { None },
        broker: C11sBroker,
        tx_wakers: tx_handle(),
        writable_waker: None,
        metrics: None,
    };
    let k: u64 = kani::any();
    let ra = any_allow();
    let rb = any_allow();
    let pred = move |o: u64| if o == k { ra } else { rb };
    let flow_limit: usize = kani::any();
    let x: u64 = kani::any();
    kani::assume(x < W);
    let before = s.sndbuf.c11s_color_at(x);
    let pre = SB::c11s_expect_pick(&offs, &cols, size, flow_limit, &pred);

    let res = s.pick_up(&pred, flow_limit);

    let (kind, e_start, e_end, e_fresh) = expected::<REAL, NS>(pre);

    match res {
        Ok((range, fresh, data, eos)) => {
            if range.start < range.end {
                assert!(kind == 0 && range.start == e_start && range.end == e_end && fresh == e_fresh, "the lowest lost segment / the never-sent suffix, limited by predicate and (if fresh) flow limit");
                if REAL {
                    check_offered(&s.sndbuf, x, before, written, max_data, flow_limit, range.start, range.end, fresh);
                }
                assert!(data_len::<NC>(&data) == range.end - range.start, "payload length == frame length (the charge is computed from the payload)");
                assert!(eos == (shutdown && range.end == written), "FIN iff shut down and the frame ends at the final size");
            } else {
                // bare FIN
                assert!(kind != 0, "a bare FIN only when no data was offered");
                assert!(eos && !fresh && data.is_empty(), "a bare FIN carries no data and is never charged");
                assert!(shutdown && range.start == written && sent == written && pred(sent).is_some(), "bare FIN: shut down, every byte sent, room in the packet");
                assert!(!REAL || x >= written || s.sndbuf.c11s_color_at(x) == before);
            }
            kani::cover!(NS == 0 || (range.start < range.end && fresh), "fresh data offered");
            kani::cover!(NS == 0 || (range.start < range.end && !fresh), "retransmission offered");
            kani::cover!(range.start == range.end, "bare FIN");
            core::mem::forget(data);
        }
        Err(signals) => {
            assert!(kind != 0, "offerable data is offered");
            let fin_due = shutdown && sent == written && pred(sent).is_some();
            assert!(!fin_due, "a due FIN is offered");
            if kind == 3 {
                assert!(signals.contains(Signals::FLOW_CONTROL), "never-sent data blocked by the connection credit: FLOW_CONTROL signalled");
            }
            if kind == 1 {
                assert!(signals.contains(Signals::CONGESTION), "predicate refused: CONGESTION signalled");
            }
            assert!(!REAL || x >= written || s.sndbuf.c11s_color_at(x) == before, "on Err nothing changed");
            kani::cover!(!REAL || NS == 0 || kind == 3, "fresh data blocked by flow_limit == 0");
        }
    }
    if REAL {
        s.sndbuf.c11s_check_js();
    }
    core::mem::forget(s);
}

// ------------------------------------------------------------------------------------------------
// DataSent

fn data_sent_pick<const REAL: bool, const NS: usize, const NC: usize>() {
    let (sndbuf, offs, cols) = SB::c11s_any::<NS, NC>();
    let written = sndbuf.written();
    let max_data = sndbuf.max_data();
    let size = sndbuf.c11s_map_size();
    let mut s = DataSentSender {
        stream_id: the_sid(),
        sndbuf,
        flush_waker: None,
        shutdown_waker: if kani::any() { Some(waker(2)) } else { None },
        broker: C11sBroker,
        tx_wakers: tx_handle(),
        fin_state: any_fin_state(),
    };
    let fin0 = fin_code(&s.fin_state);
    let k: u64 = kani::any();
    let ra = any_allow();
    let rb = any_allow();
    let pred = move |o: u64| if o == k { ra } else { rb };
    let flow_limit: usize = kani::any();
    let x: u64 = kani::any();
    kani::assume(x < W);
    let before = s.sndbuf.c11s_color_at(x);
    let pre = SB::c11s_expect_pick(&offs, &cols, size, flow_limit, &pred);

    let res = s.pick_up(&pred, flow_limit);

    let (kind, e_start, e_end, e_fresh) = expected::<REAL, NS>(pre);

    let fin1 = fin_code(&s.fin_state);
    match res {
        Ok((range, fresh, data, eos)) => {
            if range.start < range.end {
                assert!(kind == 0 && range.start == e_start && range.end == e_end && fresh == e_fresh, "the lowest lost segment / the never-sent suffix, limited by predicate and (if fresh) flow limit");
                if REAL {
                    check_offered(&s.sndbuf, x, before, written, max_data, flow_limit, range.start, range.end, fresh);
                }
                assert!(data_len::<NC>(&data) == range.end - range.start, "payload length == frame length");
                assert!(eos == (range.end == written), "every frame that ends at the final size carries FIN");
                assert!(fin1 == fin0);
            } else {
                assert!(kind != 0, "a bare FIN only when no data was offered");
                assert!(eos && !fresh && data.is_empty(), "a bare FIN carries no data and is never charged");
                assert!(fin0 == 1 && fin1 == 0 && range.start == written, "a bare FIN is re-sent only because the FIN was reported lost");
                assert!(!REAL || x >= written || s.sndbuf.c11s_color_at(x) == before);
            }
            // data re-sent from DataSent after forget_sent_state() (0-RTT rejected) IS fresh
            kani::cover!(NS == 0 || (range.start < range.end && fresh), "DataSent: never-sent data (after a 0-RTT rejection) offered as fresh");
            kani::cover!(NS == 0 || (range.start < range.end && !fresh), "DataSent: retransmission");
            kani::cover!(range.start == range.end, "DataSent: lost FIN re-sent");
            core::mem::forget(data);
        }
        Err(signals) => {
            assert!(kind != 0 && fin0 != 1, "offerable data and a lost FIN are offered");
            assert!(fin1 == fin0);
            if kind == 3 {
                assert!(signals.contains(Signals::FLOW_CONTROL), "never-sent data blocked by the connection credit: FLOW_CONTROL signalled");
            }
            assert!(!REAL || x >= written || s.sndbuf.c11s_color_at(x) == before, "on Err nothing changed");
            kani::cover!(!REAL || NS == 0 || kind == 3, "fresh data blocked by flow_limit == 0");
        }
    }
    if REAL {
        s.sndbuf.c11s_check_js();
    }
    core::mem::forget(s);
}

macro_rules! c11s_harness {
    // composite: the real SendBuf::pick_up
    (real $name:ident, $call:expr) => {
        #[kani::proof]
        #[kani::unwind(6)]
        #[kani::stub(std::sync::Mutex::lock, stub_mutex_lock)]
        #[kani::stub(qbase::net::tx::ArcSendWakers::wake_all_by, stub_wake_all_by)]
        #[kani::stub(alloc::fmt::format, stub_fmt)]
        #[kani::stub(core::slice::index::slice_index_fail, stub_slice_index_fail)]
        fn $name() {
            $call;
        }
    };
    // pass-through: SendBuf::pick_up replaced by its contract stub
    (stub $name:ident, $call:expr) => {
        #[kani::proof]
        #[kani::unwind(6)]
        #[kani::stub(std::sync::Mutex::lock, stub_mutex_lock)]
        #[kani::stub(qbase::net::tx::ArcSendWakers::wake_all_by, stub_wake_all_by)]
        #[kani::stub(alloc::fmt::format, stub_fmt)]
        #[kani::stub(core::slice::index::slice_index_fail, stub_slice_index_fail)]
        #[kani::stub(crate::send::sndbuf::SendBuf::pick_up, crate::send::sndbuf::verif_c11s_sndbuf::c11s_stub_pick_up)]
        fn $name() {
            $call;
        }
    };
}

c11s_harness!(stub c11_s_pick_sending, sending_pick::<false, 1, 1>());
c11s_harness!(stub c11_s_pick_data_sent, data_sent_pick::<false, 1, 1>());
c11s_harness!(real c11_s_real_pick_sending_s0c0, sending_pick::<true, 0, 0>());
c11s_harness!(real c11_s_real_pick_sending_s1c1, sending_pick::<true, 1, 1>());
c11s_harness!(real c11_s_real_pick_data_sent_s0c0, data_sent_pick::<true, 0, 0>());
c11s_harness!(real c11_s_real_pick_data_sent_s1c1, data_sent_pick::<true, 1, 1>());

// ------------------------------------------------------------------------------------------------
// Observers / builders for the harnesses in other modules (fields of the senders are private here).

const C11S_SENDING: u8 = 1;
const C11S_DATA_SENT: u8 = 2;

impl<TX> ArcSender<TX> {
    /// The stream's send window (the limit the peer advertised for it), if the sender still has a buffer.
    pub(crate) fn c11s_window(&self) -> Option<u64> {
        match self.sender().as_ref() {
            Ok(Sender::Ready(s)) => Some(s.sndbuf.max_data()),
            Ok(Sender::Sending(s)) => Some(s.sndbuf.max_data()),
            Ok(Sender::DataSent(s)) => Some(s.sndbuf.max_data()),
            _ => None,
        }
    }
}

// ------------------------------------------------------------------------------------------------
// The charge. `Outgoing::try_load_data_into` (frame encoding into the packet) does not finish
// symbolic execution even with concrete packet size / tokens and the buffer stubbed (measured: > 600 s
// without leaving symex), and `DataStreams::try_load_data_into_once` sits on top of it. What those
// two layers do between the sender's `pick_up` and the connection-level controller is therefore
// TRANSCRIBED (pinned by [[anchor]] entries in the registry: if the source text changes the run is
// inconclusive, never a pass):
//     raw.rs       let Ok(mut credit) = flow_ctrl.credit(packet.remaining_mut()) ...
//     raw.rs       ... outgoing.try_load_data_into(packet, sid, flow_limit, tokens) with flow_limit = credit.available()
//     outgoing.rs  s.pick_up(predicate, flow_limit) ... (ContinuousData::len(data.as_slice()), is_fresh)
//     raw.rs       let fresh_bytes = if is_fresh { data_len } else { 0 };
//     raw.rs       credit.post_sent(fresh_bytes);
// around the REAL `SendingSender/DataSentSender::pick_up`. Claim: the amount posted to the credit ==
// the number of never-sent bytes in the frame (0 for a retransmission or a bare FIN) and never
// exceeds `credit.available()`. That `Credit::post_sent(a)` + drop charges exactly `a` against the
// connection limit and returns the rest is the maintainer's c11_send_credit_cycle (flow_ctl.rs).
// (With the real ArcSendControler in the same query — Arc<Mutex<Result<..>>> on the heap — CBMC ran
// out of its 10 GB after 125 s of solving; the split costs nothing in coverage.)
use qbase::util::ContinuousData;

fn charge_step<const KIND: u8>() {
    let (sndbuf, _offs, _cols) = SB::c11s_any::<1, 1>();
    let available: usize = kani::any(); // credit.available(): min(connection credit, room in the packet)
    let k: u64 = kani::any();
    let ra = any_allow();
    let rb = any_allow();
    let pred = move |o: u64| if o == k { ra } else { rb };

    // ---- transcription starts ----
    let flow_limit = available;
    let res = if KIND == C11S_SENDING {
        let mut s = SendingSender {
            stream_id: the_sid(),
            sndbuf,
            flush_waker: None,
            shutdown_waker: if kani::any() { Some(waker(2)) } else { None },
            broker: C11sBroker,
            tx_wakers: tx_handle(),
            writable_waker: None,
            metrics: None,
        };
        let r = s.pick_up(&pred, flow_limit);
        core::mem::forget(s);
        r
    } else {
        let mut s = DataSentSender {
            stream_id: the_sid(),
            sndbuf,
            flush_waker: None,
            shutdown_waker: Some(waker(2)),
            broker: C11sBroker,
            tx_wakers: tx_handle(),
            fin_state: any_fin_state(),
        };
        let r = s.pick_up(&pred, flow_limit);
        core::mem::forget(s);
        r
    };
    let mut posted: Option<(usize, usize)> = None; // (data_len, fresh_bytes posted to the credit)
    match res {
        Ok((_range, is_fresh, data, _is_eos)) => {
            let (data_len, is_fresh) = (ContinuousData::len(data.as_slice()), is_fresh);
            let fresh_bytes = if is_fresh { data_len } else { 0 };
            // credit.post_sent(fresh_bytes);
            posted = Some((data_len, fresh_bytes));
            core::mem::forget(data);
        }
        Err(_signals) => {}
    }
    // ---- transcription ends ----

    let (sk, s_start, s_end, s_fresh, calls) = SB::c11s_stub_record();
    assert!(calls == 1);
    match posted {
        Some((len, fresh_bytes)) => {
            if len > 0 {
                assert!(sk == 1 && len as u64 == s_end - s_start, "the frame carries what the buffer offered");
                assert!(fresh_bytes == if s_fresh { len } else { 0 }, "C11: the amount charged == the number of never-sent bytes in the frame; retransmitted bytes are free");
            } else {
                assert!(fresh_bytes == 0, "a bare FIN is free");
            }
            assert!(fresh_bytes <= available, "C11: never-sent bytes never exceed the connection credit (Credit::post_sent cannot underflow)");
            kani::cover!(s_fresh && fresh_bytes == len && len > 1, "fresh frame charged in full");
            kani::cover!(len > 0 && !s_fresh && fresh_bytes == 0, "retransmission not charged");
            kani::cover!(len == 0, "bare FIN");
        }
        None => {
            // nothing posted: the whole credit is returned by Credit::drop
            kani::cover!(available > 0, "nothing sent although credit was available");
        }
    }
}

c11s_harness!(stub c11_s_charge_sending, charge_step::<C11S_SENDING>());
c11s_harness!(stub c11_s_charge_data_sent, charge_step::<C11S_DATA_SENT>());
