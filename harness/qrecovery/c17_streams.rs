// Kani harnesses compiled inside qrecovery::streams::raw (overlay, cfg(kani) only).
// Property C17, the stream table: `DataStreams::on_conn_error(e1)` (and a second call with e2)
// on the REAL DataStreams:
//   * a task parked in accept_uni_stream is woken exactly once and its next poll returns e1,
//   * output / input / listener are all poisoned with e1 (first error wins) — `poll_open_*`,
//     `accept_*` start with `guard()?` on them,
//   * every stream in the table is poisoned (its Outgoing emits nothing, its Incoming ignores data),
//   * `try_load_data_into` emits nothing ("no signal to wait for"), frames for unknown peer
//     streams no longer create streams.
// PENDING (suspected defect): a task parked in open_bi_stream / open_uni_stream because the
// peer's stream limit is exhausted (`LocalStreamIds::poll_alloc_sid` stored its waker) is NOT
// woken: nothing in the close path touches `stream_ids.local`.
use core::task::{Context, Poll};

use bytes::BufMut;
use qbase::{
    frame::{DataBlockedFrame, Frame},
    packet::io::RecordFrame,
    sid::handy::DemandConcurrency,
};

use super::*;

include!("../qbase/wake_common.rs");
use vwk::{waker, wakes};

static SEQ: [u8; 8] = [0, 1, 2, 3, 4, 5, 6, 7];

#[derive(Clone, Debug)]
struct Sink;
static mut SENT: u32 = 0;
impl SendFrame<StreamCtlFrame> for Sink {
    fn send_frame<I: IntoIterator<Item = StreamCtlFrame>>(&self, iter: I) {
        for _f in iter {
            unsafe { SENT += 1 };
        }
    }
}
impl SendFrame<DataBlockedFrame> for Sink {
    fn send_frame<I: IntoIterator<Item = DataBlockedFrame>>(&self, iter: I) {
        for _f in iter {
            unsafe { SENT += 1 };
        }
    }
}

fn stub_fmt(_args: core::fmt::Arguments<'_>) -> String {
    String::new()
}
fn stub_write(_o: &mut dyn core::fmt::Write, _a: core::fmt::Arguments<'_>) -> core::fmt::Result {
    Ok(())
}
fn stub_lock<T: ?Sized>(m: &std::sync::Mutex<T>) -> std::sync::LockResult<std::sync::MutexGuard<'_, T>> {
    match m.try_lock() {
        Ok(g) => Ok(g),
        Err(std::sync::TryLockError::Poisoned(p)) => Err(p),
        Err(std::sync::TryLockError::WouldBlock) => panic!("self-deadlock: mutex already held"),
    }
}
static mut RAISED: u32 = 0;
fn stub_wake_all_by(_t: &ArcSendWakers, _s: Signals) {
    unsafe { RAISED += 1 };
}
fn stub_slice_index_fail(_s: usize, _e: usize, _l: usize) -> ! {
    panic!("slice index out of range")
}
fn stub_tr_interest(_c: &'static tracing::callsite::DefaultCallsite) -> tracing::subscriber::Interest {
    tracing::subscriber::Interest::never()
}
fn stub_tr_enabled(_m: &tracing::Metadata<'static>, _i: tracing::subscriber::Interest) -> bool {
    false
}
fn stub_tr_dispatch<'a: 'a>(_m: &'static tracing::Metadata<'static>, _f: &'a tracing::field::ValueSet<'_>) {}

/// `Reader::new` captures the current tracing / qlog spans (thread-locals, dispatcher): not encodable
/// (kani-compiler ICE). After a connection error no Reader is ever created; reaching the stub is reported.
fn stub_reader_new<TX>(_inner: ArcRecver<TX>) -> Reader<TX> {
    panic!("a Reader was created after the connection error")
}

fn any_kind() -> ErrorKind {
    let k: u8 = kani::any();
    match k % 6 {
        0 => ErrorKind::Internal,
        1 => ErrorKind::FlowControl,
        2 => ErrorKind::ProtocolViolation,
        3 => ErrorKind::FinalSize,
        4 => ErrorKind::None,
        _ => ErrorKind::StreamLimit,
    }
}
fn conn_error(kind: ErrorKind) -> Error {
    Error::Quic(QuicError::with_default_fty(kind, "x"))
}

struct Packet {
    cap: usize,
    pos: usize,
    frames: u32,
    dummy: [u8; 1],
}
unsafe impl BufMut for Packet {
    fn remaining_mut(&self) -> usize {
        self.cap - self.pos
    }
    unsafe fn advance_mut(&mut self, cnt: usize) {
        self.pos += cnt;
    }
    fn chunk_mut(&mut self) -> &mut bytes::buf::UninitSlice {
        panic!("raw chunk access is not used by the frame writers");
        #[allow(unreachable_code)]
        bytes::buf::UninitSlice::new(&mut self.dummy[..])
    }
    fn put_slice(&mut self, src: &[u8]) {
        assert!(src.len() <= self.cap - self.pos, "advance out of bounds");
        self.pos += src.len();
    }
    fn put_bytes(&mut self, _val: u8, cnt: usize) {
        assert!(cnt <= self.cap - self.pos, "advance out of bounds");
        self.pos += cnt;
    }
}
impl<'a> RecordFrame<Frame<&'a [Bytes]>, &'a [Bytes]> for Packet {
    fn record_frame(&mut self, _frame: &Frame<&'a [Bytes]>) {
        self.frames += 1;
    }
}

fn empty_streams(role: Role, local_bi: u64, local_uni: u64) -> DataStreams<Sink> {
    DataStreams {
        ctrl_frames: Sink,
        role,
        stream_ids: StreamIds::new(role, 4, 4, local_bi, local_uni, Ext(Sink), Box::new(DemandConcurrency), ArcSendWakers::default()),
        output: ArcOutput::new(),
        input: ArcInput::default(),
        listener: ArcListener::new(),
        tls_fin: AtomicBool::new(false),
        tx_wakers: ArcSendWakers::default(),
        initial_max_stream_data_bidi_local: 0,
        initial_max_stream_data_bidi_remote: 0,
        initial_max_stream_data_uni: 0,
        metrics: None,
    }
}

fn kind_of<T>(r: Result<T, Error>) -> Option<ErrorKind> {
    match r {
        Ok(v) => {
            core::mem::forget(v);
            None
        }
        Err(e) => {
            let k = e.kind();
            core::mem::forget(e);
            Some(k)
        }
    }
}

/// OPEN_WAITER: a task (2) is parked in open_bi_stream on the exhausted stream limit.
fn poison_step<const OPEN_WAITER: bool>() {
    // (server role: `StreamIds::new` requires a server's remembered local limits to be 0)
    let role = Role::Server;
    let ds = empty_streams(role, 0, 0);
    let w0 = waker(0);
    let mut cx0 = Context::from_waker(&w0);
    let acceptor_parked: bool = kani::any();
    if acceptor_parked {
        let r = ds.listener.poll_accept_uni_stream(&mut cx0);
        assert!(r.is_pending());
        core::mem::forget(r);
    }
    let w2 = waker(2);
    let mut cx2 = Context::from_waker(&w2);
    if OPEN_WAITER {
        // what DataStreams::poll_open_bi_stream does once the parameters are known
        let r = ds.stream_ids.local.poll_alloc_sid(&mut cx2, Dir::Bi);
        assert!(r.is_pending(), "stream limit 0: the opener has to wait for MAX_STREAMS");
    }
    let k1 = any_kind();
    let k2 = any_kind();
    kani::assume(k1 != k2);

    ds.on_conn_error(&conn_error(k1));
    assert!(wakes(0) == if acceptor_parked { 1 } else { 0 }, "the parked acceptor is woken exactly once");
    ds.on_conn_error(&conn_error(k2));
    assert!(wakes(0) == if acceptor_parked { 1 } else { 0 }, "a second connection error wakes nobody");

    assert!(kind_of(ds.output.guard().map(|_| ())) == Some(k1), "output table poisoned with the first error (open_* start with output.guard()?)");
    assert!(kind_of(ds.input.guard().map(|_| ())) == Some(k1), "input table poisoned with the first error");
    assert!(kind_of(ds.listener.guard().map(|_| ())) == Some(k1), "listener poisoned with the first error (accept_* return it)");
    if OPEN_WAITER {
        assert!(wakes(2) == 1, "a task parked in open_bi_stream (stream limit exhausted) is woken by the connection error");
    }
    kani::cover!(acceptor_parked, "acceptor parked");
    kani::cover!(!acceptor_parked, "nobody parked");
    core::mem::forget(ds);
}

macro_rules! poison_harness {
    ($name:ident, $w:literal, $s:literal) => {
        #[kani::proof]
        #[kani::unwind(6)]
        #[kani::stub(std::fmt::format, stub_fmt)]
        #[kani::stub(core::fmt::write, stub_write)]
        #[kani::stub(std::sync::Mutex::lock, stub_lock)]
        #[kani::stub(qbase::net::tx::ArcSendWakers::wake_all_by, stub_wake_all_by)]
        #[kani::stub(core::slice::index::slice_index_fail, stub_slice_index_fail)]
        #[kani::stub(tracing::callsite::DefaultCallsite::interest, stub_tr_interest)]
        #[kani::stub(tracing::__macro_support::__is_enabled, stub_tr_enabled)]
        #[kani::stub(tracing::Event::dispatch, stub_tr_dispatch)]
        #[kani::stub(crate::recv::Reader::new, stub_reader_new)]
        fn $name() {
            poison_step::<$w>();
        }
    };
}

poison_harness!(c17_data_streams_poison, false, false);
poison_harness!(c17_data_streams_poison_open_waiter, true, false);
