// Kani harnesses compiled inside qrecovery::send::sndbuf (overlay, cfg(kani) only).
// Property C09, part 3: one inductive step of every `SendBuf` operation from an arbitrary valid
// pre-state. Stream content is the identity sequence over a concrete 16-byte window (the byte at
// stream offset y is SEQ[y]); every chunk handed to `write` is a slice of it, so "the buffer
// still holds byte y with its original value" is checkable per byte.
//
// Invariant JS (SendBuf level), re-established by every step:
//   * `state` satisfies J (sndbuf_map.rs) and state.size == min(written, max_data)
//     (=> the send window passed to BufMap::pick is never smaller than the map);
//   * the first boundary is not Recved and sits at `offset`; no boundary => offset == state.size
//     (the acked prefix is always shifted out);
//   * `data` holds exactly the bytes [offset, written) in order, in non-empty chunks.
use super::verif_sndbuf_map::{adjacent_ok, check_inv, color_at, LIM};
use super::*;

const W: usize = 16;
static SEQ: [u8; W] = [0, 1, 2, 3, 4, 5, 6, 7, 8, 9, 10, 11, 12, 13, 14, 15];

fn content(from: u64, to: u64) -> Bytes {
    Bytes::from_static(&SEQ).slice(from as usize..to as usize)
}

/// Arbitrary SendBuf satisfying JS with NS boundaries and NC stored chunks inside [0, W).
fn any_sendbuf<const NS: usize, const NC: usize>() -> SendBuf {
    let offset: u64 = kani::any();
    kani::assume(offset <= W as u64);
    let mut data: VecDeque<Bytes> = VecDeque::new();
    let mut pos = offset;
    let mut c = 0;
    while c < NC {
        let e: u64 = kani::any();
        kani::assume(e > pos && e <= W as u64);
        data.push_back(content(pos, e));
        pos = e;
        c += 1;
    }
    let written = pos;
    let max_data: u64 = kani::any();
    kani::assume(max_data <= LIM);
    let size = if written < max_data { written } else { max_data };
    let mut st = BufMap::default();
    let mut prev = State(0);
    let mut i = 0;
    while i < NS {
        let s = State(kani::any());
        kani::assume(s.offset() < size);
        if i == 0 {
            kani::assume(s.offset() == offset && s.color() != Color::Recved);
        } else {
            kani::assume(prev.offset() < s.offset() && adjacent_ok(prev.color(), s.color()));
        }
        st.0.push_back(s);
        prev = s;
        i += 1;
    }
    if NS == 0 {
        kani::assume(offset == size);
    }
    st.1 = size;
    SendBuf { offset, data, max_data, state: st }
}

/// Invariant JS; `y` is a symbolic probe offset for the stored-content clause.
fn check_js(b: &SendBuf, y: u64) {
    check_inv(&b.state);
    let written = b.written();
    let size = b.state.size();
    assert!(written <= W as u64);
    assert!(size == if written < b.max_data { written } else { b.max_data }, "JS: map size == min(written, max_data)");
    match b.state.0.front() {
        Some(s) => assert!(s.color() != Color::Recved && s.offset() == b.offset, "JS: first boundary is unacked and sits at `offset`"),
        None => assert!(b.offset == size, "JS: no boundary: everything in the map is acked"),
    }
    let mut pos = b.offset;
    let n = b.data.len();
    let mut i = 0;
    while i < n {
        let d = &b.data[i];
        assert!(!d.is_empty(), "JS: no empty chunk stored");
        let len = d.len() as u64;
        if y >= pos && y < pos + len {
            assert!(d[(y - pos) as usize] == SEQ[y as usize], "JS: every unacked byte is still stored with its original value");
        }
        pos += len;
        i += 1;
    }
}

/// Colour of byte x < written: bytes beyond the map (beyond the peer's window) were never sent.
fn color_ext(b: &SendBuf, x: u64) -> Color {
    if x < b.state.size() {
        color_at(&b.state, x)
    } else {
        Color::Pending
    }
}

fn any_probe_w() -> u64 {
    let x: u64 = kani::any();
    kani::assume(x < W as u64);
    x
}

// ------------------------------------------------------------------------------------------------
// write / extend

fn write_step<const NS: usize, const NC: usize>() {
    let mut b = any_sendbuf::<NS, NC>();
    let y = any_probe_w();
    let written = b.written();
    let offset = b.offset;
    let max_data = b.max_data;
    let sent = b.sent();
    let len: u64 = kani::any();
    kani::assume(len <= W as u64 - written);
    let before = color_ext(&b, y);

    b.write(content(written, written + len));

    check_js(&b, y);
    assert!(b.written() == written + len && b.offset == offset && b.max_data() == max_data);
    assert!(b.data.len() == if len > 0 { NC + 1 } else { NC }, "empty writes are ignored");
    assert!(b.sent() == sent, "writing sends nothing");
    if y < written + len {
        assert!(color_ext(&b, y) == before, "old bytes keep their colour, new bytes are never-sent");
    }
    assert!(b.has_remaining_mut() == (max_data > written + len));
    assert!(b.remaining_mut() == max_data.saturating_sub(written + len));
    assert!(b.is_all_rcvd() == (offset == written + len) && b.is_empty() == b.is_all_rcvd());
    kani::cover!(len > 0 && written + len > max_data, "write beyond the peer's window");
    // (NS == 0 with stored data: the window is full, new bytes stay outside the map)
    kani::cover!((NS == 0 && NC > 0) || (len > 0 && b.state.0.len() == NS + 1), "new Pending boundary");
    core::mem::forget(b);
}

fn extend_step<const NS: usize, const NC: usize>() {
    let mut b = any_sendbuf::<NS, NC>();
    let y = any_probe_w();
    let written = b.written();
    let offset = b.offset;
    let sent = b.sent();
    let size = b.state.size();
    let m: u64 = kani::any();
    kani::assume(m >= b.max_data && m <= LIM); // documented (debug_assert) precondition
    let before = color_ext(&b, y);

    b.extend(m);

    check_js(&b, y);
    assert!(b.written() == written && b.offset == offset && b.max_data() == m && b.data.len() == NC);
    assert!(b.sent() == sent, "a larger window sends nothing by itself");
    assert!(b.state.size() >= size);
    if y < written {
        assert!(color_ext(&b, y) == before, "no byte changes colour (bytes that enter the window are never-sent)");
    }
    kani::cover!(NC == 0 || b.state.size() > size, "bytes written beyond the old window enter the map");
    core::mem::forget(b);
}

// ------------------------------------------------------------------------------------------------
// pick_up

fn pick_up_step<const NS: usize, const NC: usize>() {
    let mut b = any_sendbuf::<NS, NC>();
    let y = any_probe_w();
    let x = any_probe_w();
    let written = b.written();
    let offset = b.offset;
    let size = b.state.size();
    let flow_limit: usize = kani::any();
    let p: Option<usize> = kani::any();
    if let Some(a) = p {
        kani::assume(a >= 1 && a as u64 <= LIM);
    }
    let before = color_ext(&b, x);
    let (mut spans_two, mut saw_retx, mut saw_fresh, mut saw_err) = (false, false, false, false);

    let res = b.pick_up(|_| p, flow_limit);

    assert!(b.written() == written && b.offset == offset && b.data.len() == NC, "picking up does not consume stored data");
    match res {
        Ok((range, fresh, chunks)) => {
            assert!(range.start < range.end && range.end <= size && range.end <= b.max_data, "offered range is inside the peer's window");
            assert!(range.start >= offset);
            let total = range.end - range.start;
            if let Some(a) = p {
                assert!(total <= a as u64);
            }
            if fresh {
                assert!(total <= flow_limit as u64, "fresh data respects the flow limit");
            }
            if x >= range.start && x < range.end {
                assert!(before == if fresh { Color::Pending } else { Color::Lost }, "only never-sent or lost bytes are offered; counted as new iff never sent");
                assert!(color_ext(&b, x) == Color::Flighting);
            } else if x < written {
                assert!(color_ext(&b, x) == before);
            }
            // the data handed out is exactly SEQ[range]
            assert!(chunks.len() <= NC);
            let k: u64 = kani::any();
            kani::assume(k < total);
            let mut pos: u64 = 0;
            let mut hit = false;
            let mut i = 0;
            while i < NC {
                if i < chunks.len() {
                    let d = &chunks[i];
                    let len = d.len() as u64;
                    assert!(len > 0);
                    if k >= pos && k < pos + len {
                        assert!(d[(k - pos) as usize] == SEQ[(range.start + k) as usize], "picked bytes have their original values, in order");
                        hit = true;
                    }
                    pos += len;
                }
                i += 1;
            }
            assert!(pos == total && hit, "picked data covers the whole offered range");
            spans_two = chunks.len() == 2;
            saw_retx = !fresh;
            saw_fresh = fresh;
            core::mem::forget(chunks);
        }
        Err(_) => {
            if x < written {
                assert!(color_ext(&b, x) == before, "on Err nothing changed");
            }
            assert!(b.state.0.len() == NS);
            saw_err = true;
        }
    }
    // (no map boundary: nothing is ever offered)
    kani::cover!(NS == 0 || NC < 2 || spans_two, "range spans two stored chunks");
    kani::cover!(NS == 0 || saw_retx, "retransmission");
    kani::cover!(NS == 0 || saw_fresh, "fresh data");
    kani::cover!(saw_err, "nothing offered");
    check_js(&b, y);
    core::mem::forget(b);
}

// ------------------------------------------------------------------------------------------------
// on_data_acked / is_all_rcvd

fn acked_step<const NS: usize, const NC: usize>() {
    let mut b = any_sendbuf::<NS, NC>();
    let y = any_probe_w();
    let x = any_probe_w();
    let written = b.written();
    let offset = b.offset;
    let max_data = b.max_data;
    let start: u64 = kani::any();
    let end: u64 = kani::any();
    // documented precondition: a non-empty range of bytes that were picked before
    kani::assume(start < end && end <= b.sent());
    let before = color_ext(&b, x);

    b.on_data_acked(&(start..end));

    check_js(&b, y);
    assert!(b.written() == written && b.max_data() == max_data, "acks neither add nor forget written bytes");
    assert!(b.offset >= offset && b.offset <= b.state.size());
    if x < written {
        let expect = if x >= start && x < end { Color::Recved } else { before };
        assert!(color_ext(&b, x) == expect, "acked bytes are Recved, all others keep their colour");
        if x < b.offset {
            assert!(color_ext(&b, x) == Color::Recved, "only acked bytes are dropped from the store");
        }
    }
    // completion is reported exactly when every written byte has been acked
    let all = b.is_all_rcvd();
    assert!(all == (b.offset == written) && b.is_empty() == all);
    if all {
        assert!(b.state.size() == written);
        if x < written {
            assert!(color_ext(&b, x) == Color::Recved);
        }
    } else {
        // b.offset is an unacked written byte
        assert!(b.offset < written && color_ext(&b, b.offset) != Color::Recved);
    }
    // (no map boundary: everything inside the window is already acked, nothing can change)
    kani::cover!(NS == 0 || (all && NC > 0), "last outstanding bytes acked: completion");
    kani::cover!(NS == 0 || NC == 0 || (b.offset > offset && !all), "acked prefix dropped, more outstanding");
    kani::cover!(NC < 2 || b.data.len() == 1, "a whole chunk dropped");
    kani::cover!(NC == 0 || (start < offset), "repeated ack of already dropped bytes");
    core::mem::forget(b);
}

#[kani::proof]
#[kani::unwind(8)]
fn c09_buf_write_s0c0() {
    write_step::<0, 0>();
}

#[kani::proof]
#[kani::unwind(8)]
fn c09_buf_write_s0c1() {
    write_step::<0, 1>();
}

#[kani::proof]
#[kani::unwind(8)]
fn c09_buf_write_s1c1() {
    write_step::<1, 1>();
}

#[kani::proof]
#[kani::unwind(8)]
fn c09_buf_write_s1c2() {
    write_step::<1, 2>();
}

#[kani::proof]
#[kani::unwind(8)]
fn c09_buf_write_s2c2() {
    write_step::<2, 2>();
}

#[kani::proof]
#[kani::unwind(8)]
fn c09_buf_extend_s0c0() {
    extend_step::<0, 0>();
}

#[kani::proof]
#[kani::unwind(8)]
fn c09_buf_extend_s0c1() {
    extend_step::<0, 1>();
}

#[kani::proof]
#[kani::unwind(8)]
fn c09_buf_extend_s1c1() {
    extend_step::<1, 1>();
}

#[kani::proof]
#[kani::unwind(8)]
fn c09_buf_extend_s1c2() {
    extend_step::<1, 2>();
}

#[kani::proof]
#[kani::unwind(8)]
fn c09_buf_extend_s2c2() {
    extend_step::<2, 2>();
}

#[kani::proof]
#[kani::unwind(8)]
fn c09_buf_pick_up_s0c0() {
    pick_up_step::<0, 0>();
}

#[kani::proof]
#[kani::unwind(8)]
fn c09_buf_pick_up_s0c1() {
    pick_up_step::<0, 1>();
}

#[kani::proof]
#[kani::unwind(8)]
fn c09_buf_pick_up_s1c1() {
    pick_up_step::<1, 1>();
}

#[kani::proof]
#[kani::unwind(8)]
fn c09_buf_pick_up_s1c2() {
    pick_up_step::<1, 2>();
}

#[kani::proof]
#[kani::unwind(8)]
fn c09_buf_pick_up_s2c2() {
    pick_up_step::<2, 2>();
}

#[kani::proof]
#[kani::unwind(8)]
fn c09_buf_acked_s0c0() {
    acked_step::<0, 0>();
}

#[kani::proof]
#[kani::unwind(8)]
fn c09_buf_acked_s0c1() {
    acked_step::<0, 1>();
}

#[kani::proof]
#[kani::unwind(8)]
fn c09_buf_acked_s1c1() {
    acked_step::<1, 1>();
}

#[kani::proof]
#[kani::unwind(8)]
fn c09_buf_acked_s1c2() {
    acked_step::<1, 2>();
}

#[kani::proof]
#[kani::unwind(8)]
fn c09_buf_acked_s2c2() {
    acked_step::<2, 2>();
}

#[kani::proof]
#[kani::unwind(8)]
fn c09_buf_pick_up_s2c1() {
    pick_up_step::<2, 1>();
}

#[kani::proof]
#[kani::unwind(8)]
fn c09_buf_acked_s2c1() {
    acked_step::<2, 1>();
}

// ------------------------------------------------------------------------------------------------
// forget_sent_state (0-RTT rejected): everything still stored is offered again as fresh data

fn forget_then_pick<const NS: usize, const NC: usize>(assume_nothing_acked: bool) {
    let mut b = any_sendbuf::<NS, NC>();
    let y = any_probe_w();
    let written = b.written();
    let offset = b.offset;
    if assume_nothing_acked {
        // 0-RTT data is only acknowledged by a server that accepted 0-RTT
        kani::assume(offset == 0);
    }

    b.forget_sent_state();

    assert!(b.max_data() == 0 && b.sent() == 0 && b.state.size() == 0 && b.state.0.len() == 0);
    assert!(b.written() == written && b.offset == offset && b.data.len() == NC, "no stored byte is forgotten");
    // the corrected window arrives
    let m: u64 = kani::any();
    kani::assume(m <= LIM);
    b.extend(m);
    let p: usize = kani::any();
    kani::assume(p >= 1 && p as u64 <= LIM);
    let flow_limit: usize = kani::any();
    let res = b.pick_up(|_| Some(p), flow_limit);
    match res {
        Ok((range, fresh, chunks)) => {
            assert!(fresh && range.start == 0, "after forgetting, data is offered again from the start, as new data");
            let total = range.end - range.start;
            let mut got: u64 = 0;
            let k: u64 = kani::any();
            kani::assume(k < total);
            let mut i = 0;
            while i < NC {
                if i < chunks.len() {
                    let d = &chunks[i];
                    let len = d.len() as u64;
                    if k >= got && k < got + len {
                        assert!(d[(k - got) as usize] == SEQ[(range.start + k) as usize], "offered bytes have their original values");
                    }
                    got += len;
                }
                i += 1;
            }
            assert!(got == total, "the data handed out covers the offered range");
            kani::cover!(total > 1, "several bytes offered again");
            core::mem::forget(chunks);
        }
        Err(_) => {
            assert!(flow_limit == 0 || m == 0 || written == 0, "something is offered unless blocked or empty");
        }
    }
    if assume_nothing_acked {
        check_js(&b, y);
    }
    core::mem::forget(b);
}

/// PENDING (suspected defect): forget_sent_state() after part of the data was acked and dropped.
#[kani::proof]
#[kani::unwind(8)]
fn c09_buf_forget_after_ack() {
    forget_then_pick::<1, 1>(false);
}

/// Passing twin: nothing was acked before the sent state is forgotten.
#[kani::proof]
#[kani::unwind(8)]
fn c09_buf_forget_s1c1() {
    forget_then_pick::<1, 1>(true);
}

#[kani::proof]
#[kani::unwind(8)]
fn c09_buf_forget_s2c2() {
    forget_then_pick::<2, 2>(true);
}
