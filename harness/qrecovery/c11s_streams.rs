// Kani harnesses compiled inside qrecovery::streams::raw (overlay, cfg(kani) only).
// Property C11, stream-set level.
//
// Part 2 — the CONFIGURATION CLAUSE: for every stream-creation path of the REAL `DataStreams`
// (built by the real `DataStreams::new` from `qbase::param` parameter sets whose six initial
// flow-control values are symbolic, full width, zero included), the send window of the new stream is
// the PEER's parameter for that stream kind and its receive limit is the LOCAL parameter for it:
//     open bidi   send window = remote.initial_max_stream_data_bidi_remote, recv limit = local.bidi_local
//     open uni    send window = remote.initial_max_stream_data_uni
//     accept bidi recv limit  = local.bidi_remote ; send window = remote.bidi_local (0 until accepted)
//     accept uni  recv limit  = local.uni
// before the handshake (client, remembered parameters / 0-RTT) the "remote" set is the remembered one,
// and `revise_params` replaces it by the real one (0-RTT rejected: exactly; accepted: the server may
// only have raised it). A peer-opened stream must never be given the window of a locally opened one.
// The values are observed on the stream objects stored in the tables (c11s_peek_*.rs).
//
// How (after many measurements, see the comments at each stub): the stream-creation functions are
// the REAL ones; what is cut away is bookkeeping around them that CBMC cannot get through when it
// lives in Arc<Mutex<Result<..>>> on the heap (table inserts, stream-id counters, parameter-map
// lookups — the latter answered from the same values keyed by the ParameterId that is ASKED for).
// The stream objects are observed on the Reader / Writer the real function returns, so a native
// replay (no stubs) observes the same values. The table walk of revise_params runs on a real
// BTreeMap table inside a stack-resident Mutex.
// (The charge — part 1 — is in c11s_sender.rs: Outgoing::try_load_data_into and
// DataStreams::try_load_data_into_once do not finish symbolic execution.)
use core::task::{Context, Poll};

use qbase::{
    frame::Frame,
    packet::io::RecordFrame,
    role::{Client, IntoRole, Server},
    sid::handy::DemandConcurrency,
    varint::VARINT_MAX,
};

use super::*;
use crate::send::ArcSender as AS;
use crate::streams::io::{ArcInputGuard, ArcOutputGuard, Output};
use crate::streams::listener::ListenerGuard;
use crate::send::SendBuf as SB;

include!("../qbase/wake_common.rs");
use vwk::{waker, wakes};

#[derive(Clone, Debug)]
struct Sink;
static mut SENT: u32 = 0;
impl SendFrame<StreamCtlFrame> for Sink {
    fn send_frame<I: IntoIterator<Item = StreamCtlFrame>>(&self, iter: I) {
        for _f in iter {
            unsafe { SENT += 1 };
        }
    }
}
impl SendFrame<DataBlockedFrame> for Sink {
    fn send_frame<I: IntoIterator<Item = DataBlockedFrame>>(&self, iter: I) {
        for _f in iter {
            unsafe { SENT += 1 };
        }
    }
}

fn stub_fmt(_args: core::fmt::Arguments<'_>) -> String {
    String::new()
}
fn stub_write(_o: &mut dyn core::fmt::Write, _a: core::fmt::Arguments<'_>) -> core::fmt::Result {
    Ok(())
}
fn stub_lock<T: ?Sized>(m: &std::sync::Mutex<T>) -> std::sync::LockResult<std::sync::MutexGuard<'_, T>> {
    match m.try_lock() {
        Ok(g) => Ok(g),
        Err(std::sync::TryLockError::Poisoned(p)) => Err(p),
        Err(std::sync::TryLockError::WouldBlock) => panic!("self-deadlock: mutex already held"),
    }
}
static mut RAISED: u32 = 0;
fn stub_wake_all_by(_t: &ArcSendWakers, _s: Signals) {
    unsafe { RAISED += 1 };
}
fn stub_slice_index_fail(_s: usize, _e: usize, _l: usize) -> ! {
    panic!("slice index out of range")
}
fn stub_tr_interest(_c: &'static tracing::callsite::DefaultCallsite) -> tracing::subscriber::Interest {
    tracing::subscriber::Interest::never()
}
fn stub_tr_enabled(_m: &tracing::Metadata<'static>, _i: tracing::subscriber::Interest) -> bool {
    false
}
fn stub_tr_dispatch<'a: 'a>(_m: &'static tracing::Metadata<'static>, _f: &'a tracing::field::ValueSet<'_>) {}
/// `Reader::new` / `Writer::new` capture the current tracing / qlog spans (thread-locals, global
/// dispatcher: not encodable). The spans are purely observational (C20): "no span".
fn stub_tracing_current() -> tracing::Span {
    tracing::Span::none()
}
fn stub_qlog_current() -> qevent::telemetry::Span {
    qevent::telemetry::Span::default()
}
/// (DESIGN.md §2.3 `fixed_random_state`: the default qlog span holds an EMPTY std HashMap)
fn fixed_random_state() -> std::hash::RandomState {
    unsafe { core::mem::transmute::<[u64; 2], std::hash::RandomState>([0, 0]) }
}

/// Work-around for a Kani 0.68 layout bug (found by the C18 engineer, harness/qbase/params_auth.rs):
/// the goto type generated for the niche-encoded enum `qbase::param::ParameterValue` is LARGER than
/// rustc's `size_of`, so `Arc::new` of a value containing it (`Arc<Parameters<Role>>` inside
/// `qbase::param::Parameters`) writes past the object the allocator returned (spurious "pointer
/// outside object bounds"). Every heap object gets 64 bytes of slack; deallocation is a no-op.
/// Given up in the harnesses that use these stubs: detection of heap overflows < 64 bytes and of bad
/// deallocations (neither is what the configuration clause is about).
unsafe fn stub_alloc_slack(layout: std::alloc::Layout) -> *mut u8 {
    unsafe { std::alloc::alloc_zeroed(std::alloc::Layout::from_size_align_unchecked(layout.size() + 64, layout.align())) }
}
unsafe fn stub_dealloc_leak(_ptr: *mut u8, _layout: std::alloc::Layout) {}
unsafe fn stub_dealloc_nn_leak(_ptr: ::core::ptr::NonNull<u8>, _layout: std::alloc::Layout) {}
unsafe fn stub_realloc_slack(ptr: *mut u8, layout: std::alloc::Layout, new_size: usize) -> *mut u8 {
    unsafe {
        let new = std::alloc::alloc_zeroed(std::alloc::Layout::from_size_align_unchecked(new_size + 64, layout.align()));
        let n = if layout.size() < new_size { layout.size() } else { new_size };
        ::core::ptr::copy_nonoverlapping(ptr, new, n);
        new
    }
}
unsafe fn stub_realloc_nn_slack(ptr: ::core::ptr::NonNull<u8>, layout: std::alloc::Layout, new_size: usize) -> *mut u8 {
    unsafe { stub_realloc_slack(ptr.as_ptr(), layout, new_size) }
}

/// One shared handle on the path wakers that is never dropped.
static mut TX: Option<ArcSendWakers> = None;
#[allow(static_mut_refs)]
fn tx_handle() -> ArcSendWakers {
    unsafe {
        if TX.is_none() {
            TX = Some(ArcSendWakers::default());
        }
        TX.as_ref().unwrap().clone()
    }
}

// ------------------------------------------------------------------------------------------------
// parameter sets

fn any_limit() -> u64 {
    let v: u64 = kani::any();
    kani::assume(v <= VARINT_MAX);
    v
}

/// Stream count a peer may advertise: 1..2^60 (0: the opener parks, nothing is created — C12's
/// subject; >= 2^60 trips `assert!(val <= MAX_STREAMS_LIMIT)`: the missing-bound finding of C18).
fn any_streams() -> u64 {
    let v: u64 = kani::any();
    kani::assume(v >= 1 && v < (1u64 << 60));
    v
}

fn set_u64<R: IntoRole + Default>(p: &mut Parameters<R>, id: ParameterId, v: u64) {
    match p.set(id, VarInt::from_u64(v).unwrap()) {
        Ok(()) => {}
        Err(e) => {
            core::mem::forget(e);
            panic!("a VarInt value <= 2^62-1 is valid for every flow-control parameter");
        }
    }
}

/// A typed parameter set carrying the three initial stream-data limits (and optionally one stream count).
fn typed<R: IntoRole + Default>(v: (u64, u64, u64), extra: Option<(ParameterId, u64)>) -> Parameters<R> {
    let mut p = Parameters::<R>::new();
    set_u64(&mut p, ParameterId::InitialMaxStreamDataBidiLocal, v.0);
    set_u64(&mut p, ParameterId::InitialMaxStreamDataBidiRemote, v.1);
    set_u64(&mut p, ParameterId::InitialMaxStreamDataUni, v.2);
    if let Some((id, n)) = extra {
        set_u64(&mut p, id, n);
    }
    p
}

fn three() -> (u64, u64, u64) {
    (any_limit(), any_limit(), any_limit())
}

trait Side {
    type L: IntoRole + Default;
    type R: IntoRole + Default;
    const ROLE: Role;
    const PEER: Role;
    fn state(local: Parameters<Self::L>, remote: Option<Parameters<Self::R>>, remembered: Option<Parameters<Self::R>>) -> ArcParameters;
    /// An `ArcParameters` of this role with empty parameter sets (see `shared_params`).
    fn blank() -> ArcParameters;
}

/// false in a native run, true under the solver (there it is replaced by `stub_in_solver`).
fn in_solver() -> bool {
    false
}
fn stub_in_solver() -> bool {
    true
}

/// The shared `ArcParameters` handed to the code under test. Natively (replay of a counterexample)
/// it really holds the given sets, and the real lookups run. Under the solver every lookup is
/// answered by the lookup stubs (from the same values), so the contents are dead data there — and
/// building / moving / dropping parameter maps inside Arc<Mutex<Result<..>>> is what kept every
/// harness that touches ArcParameters from finishing: an empty one is used.
fn shared_params<S: Side>(local: Parameters<S::L>, remote: Option<Parameters<S::R>>, remembered: Option<Parameters<S::R>>) -> ArcParameters {
    if in_solver() {
        core::mem::forget(local);
        core::mem::forget(remote);
        core::mem::forget(remembered);
        S::blank()
    } else {
        S::state(local, remote, remembered)
    }
}
struct AsClient;
struct AsServer;
impl Side for AsClient {
    type L = Client;
    type R = Server;
    const ROLE: Role = Role::Client;
    const PEER: Role = Role::Server;
    fn state(local: Parameters<Client>, remote: Option<Parameters<Server>>, remembered: Option<Parameters<Server>>) -> ArcParameters {
        qbase::param::Parameters::c11s_client(local, remote, remembered).into()
    }
    fn blank() -> ArcParameters {
        qbase::param::Parameters::new_client(Parameters::<Client>::default(), None, qbase::cid::ConnectionId::default()).into()
    }
}
impl Side for AsServer {
    type L = Server;
    type R = Client;
    const ROLE: Role = Role::Server;
    const PEER: Role = Role::Client;
    fn state(local: Parameters<Server>, remote: Option<Parameters<Client>>, remembered: Option<Parameters<Client>>) -> ArcParameters {
        // (a server never has remembered parameters)
        assert!(remembered.is_none());
        core::mem::forget(remembered);
        qbase::param::Parameters::c11s_server(local, remote).into()
    }
    fn blank() -> ArcParameters {
        qbase::param::Parameters::new_server(Parameters::<Server>::default()).into()
    }
}

// ------------------------------------------------------------------------------------------------
// Parameter LOOKUPS in the open / accept / revise harnesses. The parameter sets are really built
// (typed `Parameters<Role>` inside the shared `ArcParameters`), but looking a value up in them
// through Arc<Mutex<Result<Parameters>>> -> Arc<Parameters<Role>> -> map -> ParameterValue::clone ->
// TryFrom is what made every harness that touches `ArcParameters` time out (1500 s; the same
// harnesses without a lookup finish in ~2 min). The two lookup functions are therefore replaced by
// stubs that answer FROM THE SAME VALUES, keyed by the ParameterId that is ASKED FOR — which id a
// creation path asks for is exactly what the configuration clause is about. (`Parameters::get` /
// `get_remote` themselves — defaults, role selection — are C18's subject; a native replay runs the
// real lookups on the real sets, which hold the same values.)
/// (bidi_local, bidi_remote, uni, max_streams_bidi, max_streams_uni) of the peer's real parameters
static mut REMOTE_VALS: Option<(u64, u64, u64, u64, u64)> = None;
// (the same for the typed set the code under test holds directly — remembered parameters / the
// argument of revise_params — is registered with ArcParameters::c11s_set_typed, see harness/qbase/c11s_params.rs)

fn val_of(t: (u64, u64, u64, u64, u64), id: ParameterId) -> u64 {
    match id {
        ParameterId::InitialMaxStreamDataBidiLocal => t.0,
        ParameterId::InitialMaxStreamDataBidiRemote => t.1,
        ParameterId::InitialMaxStreamDataUni => t.2,
        ParameterId::InitialMaxStreamsBidi => t.3,
        ParameterId::InitialMaxStreamsUni => t.4,
        _ => panic!("a parameter that is no flow-control / stream-count parameter was requested"),
    }
}
fn as_value<V: TryFrom<qbase::param::ParameterValue>>(x: u64) -> Option<V> {
    qbase::param::ParameterValue::VarInt(VarInt::from_u64(x).unwrap()).try_into().ok()
}
fn stub_get_remote<V: TryFrom<qbase::param::ParameterValue>>(_p: &qbase::param::Parameters, id: ParameterId) -> Option<V> {
    match unsafe { REMOTE_VALS } {
        Some(t) => as_value(val_of(t, id)),
        None => None, // the peer's parameters are not known / not authenticated yet
    }
}
/// `Parameters::remembered` / `poll_ready` (inside the same heap-allocated state): answered from
/// harness state that mirrors what was put into the real `ArcParameters`.
static mut REMEMBERED: Option<std::sync::Arc<qbase::param::ServerParameters>> = None;
static mut PARKED: u32 = 0;
#[allow(static_mut_refs)]
fn stub_remembered(_p: &qbase::param::Parameters) -> Option<&std::sync::Arc<qbase::param::ServerParameters>> {
    unsafe { REMEMBERED.as_ref() }
}
fn stub_poll_ready(_p: &mut qbase::param::Parameters, _cx: &mut Context<'_>) -> Poll<()> {
    let known = unsafe { REMOTE_VALS };
    if known.is_some() {
        Poll::Ready(())
    } else {
        unsafe { PARKED += 1 };
        Poll::Pending
    }
}

/// `ArcLocalStreamIds::poll_alloc_sid` (stream-count bookkeeping, C12's subject) replaced by "the
/// first id of that direction is available": with the real one symbolic execution also walks the
/// exhausted-limit branch (waker queue on the heap, STREAMS_BLOCKED frame), although the limit is >= 1.
fn stub_alloc_first<BLOCKED>(l: &qbase::sid::ArcLocalStreamIds<BLOCKED>, _cx: &mut Context<'_>, dir: Dir) -> Poll<Option<StreamId>>
where
    BLOCKED: SendFrame<qbase::frame::StreamsBlockedFrame> + Clone + Send + 'static,
{
    Poll::Ready(Some(StreamId::new(l.role(), dir, 0)))
}

/// A stream that was just created (`create_sender`) has nothing written to it: `SendBuf::written()`
/// (a fold over the stored chunks; `update_window` / `extend` call it several times per sender state)
/// is answered with that fact. With the real fold over the heap-allocated, hence symbolic-length,
/// chunk queue the solver runs out of its 10 GB (measured on the revise walk).
fn stub_written_zero(_b: &SB) -> u64 {
    0
}

/// The real constructor, as qconnection's builder calls it.
fn new_streams<LR, RR>(role: Role, local: &Parameters<LR>, remote0: &Parameters<RR>) -> DataStreams<Sink> {
    DataStreams::new(role, local, remote0, Box::new(DemandConcurrency), Sink, tx_handle(), None)
}

/// The state `DataStreams::new` builds from local parameters carrying the three limits `l`
/// (that mapping is what c11_s_new_fields checks on the real constructor) and from the peer's
/// stream counts (`n_bi`, `n_uni`: a client's remembered ones; after the handshake they arrive
/// through `revise_max_streams` / MAX_STREAMS, C12's subject — its waker queue makes it expensive,
/// so the counts are given at construction here, which `LocalStreamIds::new` only allows for a client).
fn streams_with(role: Role, l: (u64, u64, u64), n_bi: u64, n_uni: u64) -> DataStreams<Sink> {
    DataStreams {
        ctrl_frames: Sink,
        role,
        stream_ids: StreamIds::new(role, 0, 0, n_bi, n_uni, Ext(Sink), Box::new(DemandConcurrency), tx_handle()),
        output: ArcOutput::new(),
        input: ArcInput::default(),
        listener: ArcListener::new(),
        tls_fin: AtomicBool::new(false),
        tx_wakers: tx_handle(),
        initial_max_stream_data_bidi_local: l.0,
        initial_max_stream_data_bidi_remote: l.1,
        initial_max_stream_data_uni: l.2,
        metrics: None,
    }
}

/// Table bookkeeping is not what the configuration clause is about, and moving the Arc-carrying
/// entries into the heap-allocated tables is what makes these paths intractable (measured): the two
/// `insert`s are replaced by no-ops in the open / accept harnesses. Nothing asserted there reads the
/// tables: the stream objects are observed through the `Reader` / `Writer` the real function returns
/// (so a native replay, where the real inserts run, observes the same values).
fn stub_output_insert<'a: 'a, TX>(_g: &mut ArcOutputGuard<'a, TX>, _sid: StreamId, outgoing: Outgoing<TX>, io_state: IOState) {
    core::mem::forget(outgoing);
    core::mem::forget(io_state);
}
fn stub_input_insert<'a: 'a, TX>(_g: &mut ArcInputGuard<'a, TX>, _sid: StreamId, incoming: Incoming<TX>, io_state: IOState) {
    core::mem::forget(incoming);
    core::mem::forget(io_state);
}

// ------------------------------------------------------------------------------------------------
// DataStreams::new: which local parameter becomes which receive-limit field

fn new_fields<S: Side>() {
    let l = three();
    let local = typed::<S::L>(l, None);
    let ds = new_streams(S::ROLE, &local, &Parameters::<S::R>::default());
    assert!(ds.initial_max_stream_data_bidi_local == l.0, "C11 new: bidi_local field == LOCAL initial_max_stream_data_bidi_local");
    assert!(ds.initial_max_stream_data_bidi_remote == l.1, "C11 new: bidi_remote field == LOCAL initial_max_stream_data_bidi_remote");
    assert!(ds.initial_max_stream_data_uni == l.2, "C11 new: uni field == LOCAL initial_max_stream_data_uni");
    assert!(ds.role == S::ROLE);
    kani::cover!(l.0 != l.1 && l.1 != l.2 && l.0 != l.2, "limits pairwise different");
    kani::cover!(l.0 == 0 && l.2 == VARINT_MAX, "zero and maximum");
    core::mem::forget(local);
    core::mem::forget(ds);
}

// ------------------------------------------------------------------------------------------------
// open

/// MODE 0: after the handshake (the peer's parameters received and authenticated);
/// MODE 1: client in 0-RTT (remembered parameters, the server's not yet known).
/// UNI_TRIGGER_AWAY: assume the trigger of the suspected defect away (the peer advertises the same
/// limit for uni streams as for bidi streams it did not initiate).
fn open_step<S: Side, const DIR_BI: bool, const MODE: u8, const UNI_TRIGGER_AWAY: bool>() {
    let l = three();
    let r = three(); // the peer's parameters in force: real (MODE 0) or remembered (MODE 1)
    if !DIR_BI && UNI_TRIGGER_AWAY {
        kani::assume(r.2 == r.1);
    }
    let n = any_streams();
    let ds = streams_with(S::ROLE, l, if DIR_BI { n } else { 0 }, if DIR_BI { 0 } else { n });
    let local = typed::<S::L>(l, None);
    let arc = if MODE == 0 {
        unsafe { REMOTE_VALS = Some((r.0, r.1, r.2, 0, 0)) };
        shared_params::<S>(local, Some(typed::<S::R>(r, None)), None)
    } else {
        ArcParameters::c11s_set_typed((r.0, r.1, r.2, 0, 0));
        unsafe { REMEMBERED = Some(std::sync::Arc::new(qbase::param::ServerParameters::default())) };
        shared_params::<S>(local, None, Some(typed::<S::R>(r, None)))
    };
    let w = waker(0);
    let mut cx = Context::from_waker(&w);
    let sid0 = StreamId::new(S::ROLE, if DIR_BI { Dir::Bi } else { Dir::Uni }, 0);

    if DIR_BI {
        match ds.poll_open_bi_stream(&mut cx, &arc) {
            Poll::Ready(Ok(Some((sid, (reader, writer))))) => {
                assert!(sid == sid0, "first locally opened bidirectional stream");
                assert!(writer.c11s_sender().c11s_window() == Some(r.1), "C11 open bidi: send window == the PEER's initial_max_stream_data_bidi_remote");
                assert!(reader.c11s_recver().c11s_limit() == Some(l.0), "C11 open bidi: receive limit == the LOCAL initial_max_stream_data_bidi_local");
                core::mem::forget(reader);
                core::mem::forget(writer);
            }
            other => {
                core::mem::forget(other);
                panic!("parameters known, stream limit >= 1: the stream is opened");
            }
        }
    } else {
        match ds.poll_open_uni_stream(&mut cx, &arc) {
            Poll::Ready(Ok(Some((sid, writer)))) => {
                assert!(sid == sid0, "first locally opened unidirectional stream");
                assert!(writer.c11s_sender().c11s_window() == Some(r.2), "C11 open uni: send window == the PEER's initial_max_stream_data_uni");
                core::mem::forget(writer);
            }
            other => {
                core::mem::forget(other);
                panic!("parameters known, stream limit >= 1: the stream is opened");
            }
        }
    }
    assert!(wakes(0) == 0);
    kani::cover!(
        r.0 != r.1 && (r.1 != r.2 || (!DIR_BI && UNI_TRIGGER_AWAY)) && r.0 != r.2 && l.0 != l.1 && l.1 != l.2 && l.0 != l.2 && l.0 != r.1,
        "all limits pairwise different"
    );
    kani::cover!(r.1 == 0 || r.2 == 0, "zero window");
    core::mem::forget(arc);
    core::mem::forget(ds);
}

// ------------------------------------------------------------------------------------------------
// accept, first half: a frame for a new peer stream arrives -> `try_accept_sid` creates the halves.
// Cuts (each measured to be necessary, see the report): the stream-id bookkeeping
// (`ArcRemoteStreamIds::try_accept_sid`, C12's subject) is replaced by "the peer's first stream of
// this kind is new" — with the real one the creation loop is unrolled to the bound —, the table
// inserts are no-ops, and `ListenerGuard::push_*` records the limits of the halves it is handed
// instead of queueing them (second half: accept_*_queued, on the real listener code).

static mut PUSHED: u32 = 0;
static mut PUSHED_SID: u64 = 0;
static mut PUSHED_LIMIT: Option<u64> = None;
static mut PUSHED_WINDOW: Option<u64> = None;

fn stub_remote_accept<MAX>(_r: &qbase::sid::ArcRemoteStreamIds<MAX>, sid: StreamId) -> Result<AcceptSid, ExceedLimitError>
where
    MAX: SendFrame<qbase::frame::MaxStreamsFrame> + Clone + Send + 'static,
{
    Ok(AcceptSid::New(qbase::sid::remote_sid::NeedCreate::c11s_single(sid)))
}
fn stub_push_bi<'a: 'a, TX>(_g: &mut ListenerGuard<'a, TX>, sid: StreamId, stream: (ArcRecver<TX>, ArcSender<TX>))
where
    TX: SendFrame<ResetStreamFrame> + Clone + Send + 'static,
{
    unsafe {
        PUSHED += 1;
        PUSHED_SID = VarInt::from(sid).into_u64();
        PUSHED_LIMIT = stream.0.c11s_limit();
        PUSHED_WINDOW = stream.1.c11s_window();
    }
    core::mem::forget(stream);
}
fn stub_push_uni<'a: 'a, TX>(_g: &mut ListenerGuard<'a, TX>, sid: StreamId, stream: ArcRecver<TX>)
where
    TX: SendFrame<ResetStreamFrame> + Clone + Send + 'static,
{
    unsafe {
        PUSHED += 1;
        PUSHED_SID = VarInt::from(sid).into_u64();
        PUSHED_LIMIT = stream.c11s_limit();
        PUSHED_WINDOW = None;
    }
    core::mem::forget(stream);
}

fn accept_create<S: Side, const DIR_BI: bool>() {
    let l = three();
    let ds = streams_with(S::ROLE, l, 0, 0);
    // a frame for the peer's first stream of this kind arrives (recv_data / recv_stream_control
    // call try_accept_sid for every peer-initiated id)
    let sid0 = StreamId::new(S::PEER, if DIR_BI { Dir::Bi } else { Dir::Uni }, 0);
    match ds.try_accept_sid(sid0) {
        Ok(()) => {}
        Err(e) => {
            core::mem::forget(e);
            panic!("the first peer stream is within every limit");
        }
    }
    let (n, sid, limit, window) = unsafe { (PUSHED, PUSHED_SID, PUSHED_LIMIT, PUSHED_WINDOW) };
    assert!(n == 1 && sid == VarInt::from(sid0).into_u64(), "exactly this stream is created and queued for the application");
    if DIR_BI {
        assert!(limit == Some(l.1), "C11 accept bidi: receive limit == the LOCAL initial_max_stream_data_bidi_remote");
        assert!(window == Some(0), "C11 accept bidi: nothing may be sent on it before the peer's window is applied (on accept)");
    } else {
        assert!(limit == Some(l.2), "C11 accept uni: receive limit == the LOCAL initial_max_stream_data_uni");
        assert!(window.is_none(), "a receive-only stream has no sending half");
    }
    kani::cover!(l.0 != l.1 && l.1 != l.2 && l.0 != l.2, "limits pairwise different");
    kani::cover!(l.1 == 0 || l.2 == 0, "zero limit");
    core::mem::forget(ds);
}

// accept, second half: the application accepts the queued stream (real Listener code on a
// stack-resident listener, see c11s_listener.rs)

fn accept_bi_queued<S: Side, const READY: bool>() {
    let l = three();
    let r = three();
    let limit = any_limit();
    let sid0 = StreamId::new(S::PEER, Dir::Bi, 0);
    // the halves as try_accept_bi_sid creates them
    let recver = ArcRecver::new(sid0, limit, Ext(Sink));
    let sender = AS::new(sid0, 0, Ext(Sink), tx_handle(), None);
    // READY: the peer's parameters are known (received and authenticated) when the application accepts
    // (a constant per harness: `poll_accept_bi_stream` re-enters itself after `poll_ready`, and with a
    // symbolic answer the re-entry is unrolled to the bound)
    let ready: bool = READY;
    let remote = if ready { Some(typed::<S::R>(r, None)) } else { None };
    if ready {
        unsafe { REMOTE_VALS = Some((r.0, r.1, r.2, 0, 0)) };
    }
    let arc = shared_params::<S>(typed::<S::L>(l, None), remote, None);
    let w = waker(0);
    let mut cx = Context::from_waker(&w);
    match ArcListener::c11s_queue_and_accept_bi(sid0, (recver.clone(), sender.clone()), &mut cx, &arc) {
        Poll::Ready(Ok((sid, (reader, writer)))) => {
            assert!(ready && sid == sid0);
            assert!(writer.c11s_sender().c11s_window() == Some(r.0), "C11 accept bidi: send window == the PEER's initial_max_stream_data_bidi_local");
            assert!(reader.c11s_recver().c11s_limit() == Some(limit), "accepting does not change the receive limit");
            core::mem::forget(reader);
            core::mem::forget(writer);
        }
        Poll::Pending => {
            assert!(!ready, "the stream stays queued until the peer's parameters are known");
            assert!(sender.c11s_window() == Some(0) && recver.c11s_limit() == Some(limit));
        }
        other => {
            core::mem::forget(other);
            panic!("no connection error");
        }
    }
    kani::cover!(!ready || (r.0 != r.1 && r.0 != r.2 && r.0 != l.0 && r.0 != l.1), "limits pairwise different");
    kani::cover!(!ready || r.0 == 0, "zero window");
    kani::cover!(ready || unsafe { PARKED } == 1, "accept before the peer's parameters are known: parked");
    core::mem::forget(arc);
    core::mem::forget(recver);
    core::mem::forget(sender);
}

fn accept_uni_queued<S: Side>() {
    let limit = any_limit();
    let sid0 = StreamId::new(S::PEER, Dir::Uni, 0);
    let recver = ArcRecver::new(sid0, limit, Ext(Sink));
    let w = waker(0);
    let mut cx = Context::from_waker(&w);
    match ArcListener::c11s_queue_and_accept_uni(sid0, recver.clone(), &mut cx) {
        Poll::Ready(Ok((sid, reader))) => {
            assert!(sid == sid0);
            assert!(reader.c11s_recver().c11s_limit() == Some(limit), "accepting does not change the receive limit");
            core::mem::forget(reader);
        }
        other => {
            core::mem::forget(other);
            panic!("the queued stream is handed out");
        }
    }
    kani::cover!(limit == 0, "zero limit");
    core::mem::forget(recver);
}

// (the real `Parameters::get` runs here)
macro_rules! c11s_new_harness {
    ($name:ident, $call:expr) => {
        #[kani::proof]
        #[kani::unwind(6)]
        #[kani::stub(core::fmt::write, stub_write)]
        #[kani::stub(std::sync::Mutex::lock, stub_lock)]
        #[kani::stub(qbase::net::tx::ArcSendWakers::wake_all_by, stub_wake_all_by)]
        fn $name() {
            $call;
        }
    };
}

macro_rules! c11s_streams_harness {
    ($name:ident, $call:expr) => {
        #[kani::proof]
        #[kani::unwind(6)]
        #[kani::stub(std::fmt::format, stub_fmt)]
        #[kani::stub(core::fmt::write, stub_write)]
        #[kani::stub(std::sync::Mutex::lock, stub_lock)]
        #[kani::stub(qbase::net::tx::ArcSendWakers::wake_all_by, stub_wake_all_by)]
        #[kani::stub(core::slice::index::slice_index_fail, stub_slice_index_fail)]
        #[kani::stub(tracing::callsite::DefaultCallsite::interest, stub_tr_interest)]
        #[kani::stub(tracing::__macro_support::__is_enabled, stub_tr_enabled)]
        #[kani::stub(tracing::Event::dispatch, stub_tr_dispatch)]
        #[kani::stub(tracing::Span::current, stub_tracing_current)]
        #[kani::stub(qevent::telemetry::Span::current, stub_qlog_current)]
        #[kani::stub(std::hash::RandomState::new, fixed_random_state)]
        #[kani::stub(crate::streams::io::ArcOutputGuard::insert, stub_output_insert)]
        #[kani::stub(crate::streams::io::ArcInputGuard::insert, stub_input_insert)]
        #[kani::stub(crate::streams::io::ArcOutput::guard, crate::streams::io::verif_c11s_io::c11s_stub_output_guard)]
        #[kani::stub(crate::streams::io::ArcInput::guard, crate::streams::io::verif_c11s_io::c11s_stub_input_guard)]
        #[kani::stub(crate::streams::listener::ArcListener::guard, crate::streams::listener::verif_c11s_listener::c11s_stub_listener_guard)]
        #[kani::stub(qbase::param::ArcParameters::lock_guard, qbase::param::ArcParameters::c11s_stub_lock_guard)]
        #[kani::stub(in_solver, stub_in_solver)]
        #[kani::stub(std::alloc::alloc, stub_alloc_slack)]
        #[kani::stub(std::alloc::dealloc, stub_dealloc_leak)]
        #[kani::stub(std::alloc::realloc, stub_realloc_slack)]
        #[kani::stub(alloc::alloc::dealloc_nonnull, stub_dealloc_nn_leak)]
        #[kani::stub(alloc::alloc::realloc_nonnull, stub_realloc_nn_slack)]
        #[kani::stub(qbase::sid::ArcLocalStreamIds::poll_alloc_sid, stub_alloc_first)]
        #[kani::stub(crate::send::sndbuf::SendBuf::written, stub_written_zero)]
        #[kani::stub(qbase::param::Parameters::get_remote, stub_get_remote)]
        #[kani::stub(qbase::param::Parameters::remembered, stub_remembered)]
        #[kani::stub(qbase::param::Parameters::poll_ready, stub_poll_ready)]
        #[kani::stub(qbase::param::core::Parameters::get, qbase::param::core::Parameters::c11s_stub_get)]
        #[kani::stub(qbase::sid::ArcRemoteStreamIds::try_accept_sid, stub_remote_accept)]
        #[kani::stub(crate::streams::listener::ListenerGuard::push_bi_stream, stub_push_bi)]
        #[kani::stub(crate::streams::listener::ListenerGuard::push_uni_stream, stub_push_uni)]
        fn $name() {
            $call;
        }
    };
}

c11s_new_harness!(c11_s_new_fields_client, new_fields::<AsClient>());
c11s_new_harness!(c11_s_new_fields_server, new_fields::<AsServer>());
c11s_streams_harness!(c11_s_open_bi_client, open_step::<AsClient, true, 0, false>());
c11s_streams_harness!(c11_s_open_bi_0rtt, open_step::<AsClient, true, 1, false>());
// PENDING (suspected defect): poll_open_uni_stream reads InitialMaxStreamDataBidiRemote when there are no remembered parameters
c11s_streams_harness!(c11_s_open_uni_client, open_step::<AsClient, false, 0, false>());
// passing twins: trigger assumed away (equal limits) / other branch (remembered parameters)
c11s_streams_harness!(c11_s_open_uni_client_eq, open_step::<AsClient, false, 0, true>());
c11s_streams_harness!(c11_s_open_uni_0rtt, open_step::<AsClient, false, 1, false>());
c11s_streams_harness!(c11_s_accept_bi_create_client, accept_create::<AsClient, true>());
c11s_streams_harness!(c11_s_accept_bi_create_server, accept_create::<AsServer, true>());
c11s_streams_harness!(c11_s_accept_uni_create_client, accept_create::<AsClient, false>());
c11s_streams_harness!(c11_s_accept_uni_create_server, accept_create::<AsServer, false>());
c11s_streams_harness!(c11_s_accept_bi_queued_client, accept_bi_queued::<AsClient, true>());
c11s_streams_harness!(c11_s_accept_bi_queued_server, accept_bi_queued::<AsServer, true>());
c11s_streams_harness!(c11_s_accept_bi_queued_early, accept_bi_queued::<AsClient, false>());
c11s_streams_harness!(c11_s_accept_uni_queued, accept_uni_queued::<AsClient>());

// ------------------------------------------------------------------------------------------------
// revise_params (handshake done): which of the peer's parameters goes to which streams

static mut REV_CALLS: u32 = 0;
static mut REV_ARGS: (bool, u64, u64, u64, u64) = (false, 0, 0, 0, 0);
/// Recording stub for `ArcOutputGuard::revise_max_stream_data` (the table walk itself is the
/// subject of c11_s_revise_peer_bidi*).
fn stub_revise_record<'a: 'a, TX>(_g: &ArcOutputGuard<'a, TX>, zero_rtt_rejected: bool, opened_bidi: u64, opened_uni: u64, bidi_snd_wnd_size: u64, uni_snd_wnd_size: u64) {
    unsafe {
        REV_CALLS += 1;
        REV_ARGS = (zero_rtt_rejected, opened_bidi, opened_uni, bidi_snd_wnd_size, uni_snd_wnd_size);
    }
}

static mut REVS_CALLS: u32 = 0;
static mut REVS_ARGS: (bool, u64, u64) = (false, 0, 0);
/// Recording stub for `ArcLocalStreamIds::revise_max_streams` (C12's subject; its waker queues are expensive).
fn stub_revise_streams_record<BLOCKED>(_l: &qbase::sid::ArcLocalStreamIds<BLOCKED>, zero_rtt_rejected: bool, max_stream_bidi: u64, max_stream_uni: u64)
where
    BLOCKED: SendFrame<qbase::frame::StreamsBlockedFrame> + Clone + Send + 'static,
{
    unsafe {
        REVS_CALLS += 1;
        REVS_ARGS = (zero_rtt_rejected, max_stream_bidi, max_stream_uni);
    }
}

/// `revise_params(rejected, remote)`: the windows handed to the table walk are the peer's
/// initial_max_stream_data_bidi_remote (for locally opened bidi streams) and
/// initial_max_stream_data_uni (for locally opened uni streams), together with the number of
/// streams this endpoint has opened in each direction; 1-RTT is entered.
fn revise_args<S: Side>() {
    let l = three();
    let r = three();
    let n = any_streams();
    let ds = streams_with(S::ROLE, l, n, n);
    let w = waker(0);
    let mut cx = Context::from_waker(&w);
    // this endpoint has opened 0 or 1 stream per direction so far
    let open_bi: bool = kani::any();
    let open_uni: bool = kani::any();
    if open_bi {
        assert!(ds.stream_ids.local.poll_alloc_sid(&mut cx, Dir::Bi).is_ready());
    }
    if open_uni {
        assert!(ds.stream_ids.local.poll_alloc_sid(&mut cx, Dir::Uni).is_ready());
    }
    let rejected: bool = kani::any();
    let rn: u64 = kani::any();
    kani::assume(rn >= n && rn < (1u64 << 60));
    let remote = typed::<S::R>(r, Some((ParameterId::InitialMaxStreamsBidi, rn)));
    ArcParameters::c11s_set_typed((r.0, r.1, r.2, rn, 0));

    ds.revise_params(rejected, &remote);

    let (calls, args) = unsafe { (REV_CALLS, REV_ARGS) };
    assert!(calls == 1, "the stream table is revised exactly once");
    assert!(args.0 == rejected);
    assert!(args.1 == if open_bi { 1 } else { 0 } && args.2 == if open_uni { 1 } else { 0 }, "only streams this endpoint has opened are revised");
    assert!(args.3 == r.1, "C11 revise: locally opened bidi streams get the PEER's initial_max_stream_data_bidi_remote");
    assert!(args.4 == r.2, "C11 revise: locally opened uni streams get the PEER's initial_max_stream_data_uni");
    assert!(ds.tls_fin.load(Acquire), "1-RTT entered");
    let (scalls, sargs) = unsafe { (REVS_CALLS, REVS_ARGS) };
    assert!(scalls == 1 && sargs == (rejected, rn, 0), "the stream counts are revised with the peer's initial_max_streams_{bidi,uni}");
    kani::cover!(r.0 != r.1 && r.1 != r.2 && r.0 != r.2, "limits pairwise different");
    kani::cover!(rejected && open_bi && open_uni, "0-RTT rejected with streams open");
    core::mem::forget(remote);
    core::mem::forget(ds);
}

macro_rules! c11s_revise_args_harness {
    ($name:ident, $call:expr) => {
        #[kani::proof]
        #[kani::unwind(6)]
        #[kani::stub(core::fmt::write, stub_write)]
        #[kani::stub(std::sync::Mutex::lock, stub_lock)]
        #[kani::stub(qbase::net::tx::ArcSendWakers::wake_all_by, stub_wake_all_by)]
        #[kani::stub(crate::streams::io::ArcOutputGuard::revise_max_stream_data, stub_revise_record)]
        #[kani::stub(crate::streams::io::ArcOutput::guard, crate::streams::io::verif_c11s_io::c11s_stub_output_guard)]
        #[kani::stub(qbase::param::core::Parameters::get, qbase::param::core::Parameters::c11s_stub_get)]
        #[kani::stub(qbase::sid::ArcLocalStreamIds::revise_max_streams, stub_revise_streams_record)]
        fn $name() {
            $call;
        }
    };
}
c11s_revise_args_harness!(c11_s_revise_args_client, revise_args::<AsClient>());

/// The table walk `ArcOutputGuard::revise_max_stream_data` on a REAL table (std BTreeMap inside a
/// stack-resident Mutex, see c11s_io.rs) of a CLIENT, holding ONE stream (index 0 of its kind) in
/// the state `create_sender` leaves it (Ready, window v). An endpoint that has opened `opened_bidi`
/// / `opened_uni` streams revises exactly the streams IT opened (initiator == own role and index <
/// opened count): bidi -> wb, uni -> wu (0-RTT rejected: exactly; accepted: never lowered). Every
/// other stream in the table — in particular a PEER-opened bidirectional stream, whose window is the
/// peer's initial_max_stream_data_bidi_local and is applied when the application accepts it —
/// keeps its window.
/// LOCAL / DIR_BI: who opened the stream in the table, and its direction.
/// NONE_OPENED (peer-opened stream only): the client has not opened a bidirectional stream itself —
/// the trigger of the suspected defect assumed away (the walk tests `sid.id() < opened_bidi`
/// without looking at the initiator of the stream).
fn revise_walk<const LOCAL: bool, const DIR_BI: bool, const NONE_OPENED: bool>() {
    let sid = StreamId::new(if LOCAL { Role::Client } else { Role::Server }, if DIR_BI { Dir::Bi } else { Dir::Uni }, 0);
    let opened_bidi: u64 = kani::any();
    let opened_uni: u64 = kani::any();
    kani::assume(opened_bidi <= 2 && opened_uni <= 2);
    if LOCAL {
        // a locally opened stream in the table has been opened
        kani::assume(if DIR_BI { opened_bidi >= 1 } else { opened_uni >= 1 });
    }
    if NONE_OPENED {
        kani::assume(opened_bidi == 0);
    }
    let v = any_limit();
    let wb = any_limit();
    let wu = any_limit();
    let rejected: bool = kani::any();
    if !rejected && LOCAL {
        // RFC 9000 7.4.1 / is_0rtt_accepted: an accepted 0-RTT never lowers a remembered limit
        kani::assume(v <= if DIR_BI { wb } else { wu });
    }
    let sender = AS::<Ext<Sink>>::new(sid, v, Ext(Sink), tx_handle(), None);
    let mut table = Output::<Ext<Sink>>::c11s_new();
    table.outgoings.insert(sid, (Outgoing::new(sender.clone()), IOState::bidirection()));
    let mutex = std::sync::Mutex::new(Ok(table));
    let guard = ArcOutputGuard::c11s_from(mutex.lock().unwrap());

    guard.revise_max_stream_data(rejected, opened_bidi, opened_uni, wb, wu);

    let after = sender.c11s_window();
    if LOCAL {
        assert!(after == Some(if DIR_BI { wb } else { wu }), "C11 revise: a locally opened stream gets the peer's limit for its kind (bidi -> bidi_remote value, uni -> uni value)");
    } else {
        assert!(after == Some(v), "C11 revise: a PEER-opened bidirectional stream keeps its window (its limit is the peer's initial_max_stream_data_bidi_local, applied on accept)");
    }
    let a = match after {
        Some(a) => a,
        None => panic!("the sender still has its buffer"),
    };
    // (witnesses that cannot exist for a variant are made trivially true there)
    kani::cover!(!LOCAL || (rejected && a < v), "own stream: 0-RTT rejected, smaller window");
    kani::cover!(!LOCAL || (!rejected && a > v), "own stream: window raised");
    kani::cover!(LOCAL || NONE_OPENED || opened_bidi > 0, "peer-opened bidi stream while own bidi streams exist");
    kani::cover!(LOCAL || wb > v, "peer-opened stream: the window for own bidi streams is larger");
    core::mem::forget(guard);
    core::mem::forget(mutex);
    core::mem::forget(sender);
}

macro_rules! c11s_revise_walk_harness {
    ($name:ident, $call:expr) => {
        #[kani::proof]
        #[kani::unwind(6)]
        #[kani::stub(crate::send::sndbuf::SendBuf::written, stub_written_zero)]
        #[kani::stub(core::fmt::write, stub_write)]
        #[kani::stub(std::sync::Mutex::lock, stub_lock)]
        #[kani::stub(qbase::net::tx::ArcSendWakers::wake_all_by, stub_wake_all_by)]
        fn $name() {
            $call;
        }
    };
}
// PENDING (suspected defect): the walk gives the BidiRemote window to peer-opened bidi streams as well
c11s_revise_walk_harness!(c11_s_revise_walk_peer_bidi, revise_walk::<false, true, false>());
// passing twin: trigger assumed away
c11s_revise_walk_harness!(c11_s_revise_walk_peer_bidi_none_opened, revise_walk::<false, true, true>());
c11s_revise_walk_harness!(c11_s_revise_walk_own_bidi, revise_walk::<true, true, false>());
c11s_revise_walk_harness!(c11_s_revise_walk_own_uni, revise_walk::<true, false, false>());
