// Kani harnesses compiled inside qrecovery::streams::raw (overlay, cfg(kani) only).
// Property C11, stream-set level.
//
// Part 2 — the CONFIGURATION CLAUSE: for every stream-creation path of the REAL `DataStreams`
// (built by the real `DataStreams::new` from `qbase::param` parameter sets whose six initial
// flow-control values are symbolic, full width, zero included), the send window of the new stream is
// the PEER's parameter for that stream kind and its receive limit is the LOCAL parameter for it:
//     open bidi   send window = remote.initial_max_stream_data_bidi_remote, recv limit = local.bidi_local
//     open uni    send window = remote.initial_max_stream_data_uni
//     accept bidi recv limit  = local.bidi_remote ; send window = remote.bidi_local (0 until accepted)
//     accept uni  recv limit  = local.uni
// before the handshake (client, remembered parameters / 0-RTT) the "remote" set is the remembered one,
// and `revise_params` replaces it by the real one (0-RTT rejected: exactly; accepted: the server may
// only have raised it). A peer-opened stream must never be given the window of a locally opened one.
// The values are observed on the stream objects stored in the tables (c11s_peek_*.rs).
//
// Part 1b — `DataStreams::try_load_data_into_once` on a table with one stream whose sender is
// symbolic (c11s_sender.rs): the connection-level credit charged (observed on the real
// ArcSendControler) equals the number of NEVER-SENT bytes in the emitted STREAM frame.
use core::task::{Context, Poll};

use qbase::{
    frame::Frame,
    packet::io::RecordFrame,
    role::{Client, IntoRole, Server},
    sid::handy::DemandConcurrency,
    varint::VARINT_MAX,
};

use super::*;
use crate::send::ArcSender as AS;
use crate::streams::io::{ArcInputGuard, ArcOutputGuard};
use crate::send::SendBuf as SB;

include!("../qbase/wake_common.rs");
use vwk::{waker, wakes};

#[derive(Clone, Debug)]
struct Sink;
static mut SENT: u32 = 0;
impl SendFrame<StreamCtlFrame> for Sink {
    fn send_frame<I: IntoIterator<Item = StreamCtlFrame>>(&self, iter: I) {
        for _f in iter {
            unsafe { SENT += 1 };
        }
    }
}
impl SendFrame<DataBlockedFrame> for Sink {
    fn send_frame<I: IntoIterator<Item = DataBlockedFrame>>(&self, iter: I) {
        for _f in iter {
            unsafe { SENT += 1 };
        }
    }
}

fn stub_fmt(_args: core::fmt::Arguments<'_>) -> String {
    String::new()
}
fn stub_write(_o: &mut dyn core::fmt::Write, _a: core::fmt::Arguments<'_>) -> core::fmt::Result {
    Ok(())
}
fn stub_lock<T: ?Sized>(m: &std::sync::Mutex<T>) -> std::sync::LockResult<std::sync::MutexGuard<'_, T>> {
    match m.try_lock() {
        Ok(g) => Ok(g),
        Err(std::sync::TryLockError::Poisoned(p)) => Err(p),
        Err(std::sync::TryLockError::WouldBlock) => panic!("self-deadlock: mutex already held"),
    }
}
static mut RAISED: u32 = 0;
fn stub_wake_all_by(_t: &ArcSendWakers, _s: Signals) {
    unsafe { RAISED += 1 };
}
fn stub_slice_index_fail(_s: usize, _e: usize, _l: usize) -> ! {
    panic!("slice index out of range")
}
fn stub_tr_interest(_c: &'static tracing::callsite::DefaultCallsite) -> tracing::subscriber::Interest {
    tracing::subscriber::Interest::never()
}
fn stub_tr_enabled(_m: &tracing::Metadata<'static>, _i: tracing::subscriber::Interest) -> bool {
    false
}
fn stub_tr_dispatch<'a: 'a>(_m: &'static tracing::Metadata<'static>, _f: &'a tracing::field::ValueSet<'_>) {}
/// `Reader::new` / `Writer::new` capture the current tracing / qlog spans (thread-locals, global
/// dispatcher: not encodable). The spans are purely observational (C20): "no span".
fn stub_tracing_current() -> tracing::Span {
    tracing::Span::none()
}
fn stub_qlog_current() -> qevent::telemetry::Span {
    qevent::telemetry::Span::default()
}
/// (DESIGN.md §2.3 `fixed_random_state`: the default qlog span holds an EMPTY std HashMap)
fn fixed_random_state() -> std::hash::RandomState {
    unsafe { core::mem::transmute::<[u64; 2], std::hash::RandomState>([0, 0]) }
}

/// One shared handle on the path wakers that is never dropped.
static mut TX: Option<ArcSendWakers> = None;
#[allow(static_mut_refs)]
fn tx_handle() -> ArcSendWakers {
    unsafe {
        if TX.is_none() {
            TX = Some(ArcSendWakers::default());
        }
        TX.as_ref().unwrap().clone()
    }
}

// ------------------------------------------------------------------------------------------------
// parameter sets

fn any_limit() -> u64 {
    let v: u64 = kani::any();
    kani::assume(v <= VARINT_MAX);
    v
}

/// Stream count a peer may advertise: 1..=2^60 (0: the opener parks, nothing is created — C12's
/// subject; > 2^60 is the missing-bound finding of C18).
fn any_streams() -> u64 {
    let v: u64 = kani::any();
    kani::assume(v >= 1 && v <= (1u64 << 60));
    v
}

fn set_u64<R: IntoRole + Default>(p: &mut Parameters<R>, id: ParameterId, v: u64) {
    match p.set(id, VarInt::from_u64(v).unwrap()) {
        Ok(()) => {}
        Err(e) => {
            core::mem::forget(e);
            panic!("a VarInt value <= 2^62-1 is valid for every flow-control parameter");
        }
    }
}

/// A typed parameter set carrying the three initial stream-data limits (and optionally one stream count).
fn typed<R: IntoRole + Default>(v: (u64, u64, u64), extra: Option<(ParameterId, u64)>) -> Parameters<R> {
    let mut p = Parameters::<R>::new();
    set_u64(&mut p, ParameterId::InitialMaxStreamDataBidiLocal, v.0);
    set_u64(&mut p, ParameterId::InitialMaxStreamDataBidiRemote, v.1);
    set_u64(&mut p, ParameterId::InitialMaxStreamDataUni, v.2);
    if let Some((id, n)) = extra {
        set_u64(&mut p, id, n);
    }
    p
}

fn three() -> (u64, u64, u64) {
    (any_limit(), any_limit(), any_limit())
}

trait Side {
    type L: IntoRole + Default;
    type R: IntoRole + Default;
    const ROLE: Role;
    const PEER: Role;
    fn state(local: Parameters<Self::L>, remote: Option<Parameters<Self::R>>, remembered: Option<Parameters<Self::R>>) -> ArcParameters;
}
struct AsClient;
struct AsServer;
impl Side for AsClient {
    type L = Client;
    type R = Server;
    const ROLE: Role = Role::Client;
    const PEER: Role = Role::Server;
    fn state(local: Parameters<Client>, remote: Option<Parameters<Server>>, remembered: Option<Parameters<Server>>) -> ArcParameters {
        qbase::param::Parameters::c11s_client(local, remote, remembered).into()
    }
}
impl Side for AsServer {
    type L = Server;
    type R = Client;
    const ROLE: Role = Role::Server;
    const PEER: Role = Role::Client;
    fn state(local: Parameters<Server>, remote: Option<Parameters<Client>>, remembered: Option<Parameters<Client>>) -> ArcParameters {
        // (a server never has remembered parameters)
        assert!(remembered.is_none());
        core::mem::forget(remembered);
        qbase::param::Parameters::c11s_server(local, remote).into()
    }
}

/// The real constructor, as qconnection's builder calls it.
fn new_streams<LR, RR>(role: Role, local: &Parameters<LR>, remote0: &Parameters<RR>) -> DataStreams<Sink> {
    DataStreams::new(role, local, remote0, Box::new(DemandConcurrency), Sink, tx_handle(), None)
}

/// The state `DataStreams::new` builds from local parameters carrying the three limits `l`
/// (that mapping is what c11_s_new_fields checks on the real constructor), with the peer's stream
/// counts (`n_bi`, `n_uni`) applied through the real `revise_max_streams` (as revise_params does
/// after the handshake; a client with remembered parameters gets them from `new` directly).
fn streams_with(role: Role, l: (u64, u64, u64), n_bi: u64, n_uni: u64) -> DataStreams<Sink> {
    let ds = DataStreams {
        ctrl_frames: Sink,
        role,
        stream_ids: StreamIds::new(role, 0, 0, 0, 0, Ext(Sink), Box::new(DemandConcurrency), tx_handle()),
        output: ArcOutput::new(),
        input: ArcInput::default(),
        listener: ArcListener::new(),
        tls_fin: AtomicBool::new(false),
        tx_wakers: tx_handle(),
        initial_max_stream_data_bidi_local: l.0,
        initial_max_stream_data_bidi_remote: l.1,
        initial_max_stream_data_uni: l.2,
        metrics: None,
    };
    if n_bi > 0 || n_uni > 0 {
        ds.stream_ids.local.revise_max_streams(false, n_bi, n_uni);
    }
    ds
}

/// Table bookkeeping is not what the configuration clause is about, and moving the Arc-carrying
/// entries into the heap-allocated tables is what makes these paths intractable (measured): the two
/// `insert`s are replaced by no-ops in the open / accept harnesses. Nothing asserted there reads the
/// tables: the stream objects are observed through the `Reader` / `Writer` the real function returns
/// (so a native replay, where the real inserts run, observes the same values).
fn stub_output_insert<TX>(_g: &mut ArcOutputGuard<'_, TX>, _sid: StreamId, outgoing: Outgoing<TX>, io_state: IOState) {
    core::mem::forget(outgoing);
    core::mem::forget(io_state);
}
fn stub_input_insert<TX>(_g: &mut ArcInputGuard<'_, TX>, _sid: StreamId, incoming: Incoming<TX>, io_state: IOState) {
    core::mem::forget(incoming);
    core::mem::forget(io_state);
}

// ------------------------------------------------------------------------------------------------
// DataStreams::new: which local parameter becomes which receive-limit field

fn new_fields<S: Side>() {
    let l = three();
    let local = typed::<S::L>(l, None);
    let ds = new_streams(S::ROLE, &local, &Parameters::<S::R>::default());
    assert!(ds.initial_max_stream_data_bidi_local == l.0, "C11 new: bidi_local field == LOCAL initial_max_stream_data_bidi_local");
    assert!(ds.initial_max_stream_data_bidi_remote == l.1, "C11 new: bidi_remote field == LOCAL initial_max_stream_data_bidi_remote");
    assert!(ds.initial_max_stream_data_uni == l.2, "C11 new: uni field == LOCAL initial_max_stream_data_uni");
    assert!(ds.role == S::ROLE);
    kani::cover!(l.0 != l.1 && l.1 != l.2 && l.0 != l.2, "limits pairwise different");
    kani::cover!(l.0 == 0 && l.2 == VARINT_MAX, "zero and maximum");
    core::mem::forget(local);
    core::mem::forget(ds);
}

// ------------------------------------------------------------------------------------------------
// open

/// MODE 0: after the handshake (the peer's parameters received and authenticated);
/// MODE 1: client in 0-RTT (remembered parameters, the server's not yet known).
/// UNI_TRIGGER_AWAY: assume the trigger of the suspected defect away (the peer advertises the same
/// limit for uni streams as for bidi streams it did not initiate).
fn open_step<S: Side, const DIR_BI: bool, const MODE: u8, const UNI_TRIGGER_AWAY: bool>() {
    let l = three();
    let r = three(); // the peer's parameters in force: real (MODE 0) or remembered (MODE 1)
    if !DIR_BI && UNI_TRIGGER_AWAY {
        kani::assume(r.2 == r.1);
    }
    let n = any_streams();
    let ds = streams_with(S::ROLE, l, if DIR_BI { n } else { 0 }, if DIR_BI { 0 } else { n });
    let local = typed::<S::L>(l, None);
    let arc = if MODE == 0 {
        S::state(local, Some(typed::<S::R>(r, None)), None)
    } else {
        S::state(local, None, Some(typed::<S::R>(r, None)))
    };
    let w = waker(0);
    let mut cx = Context::from_waker(&w);
    let sid0 = StreamId::new(S::ROLE, if DIR_BI { Dir::Bi } else { Dir::Uni }, 0);

    if DIR_BI {
        match ds.poll_open_bi_stream(&mut cx, &arc) {
            Poll::Ready(Ok(Some((sid, (reader, writer))))) => {
                assert!(sid == sid0, "first locally opened bidirectional stream");
                assert!(writer.c11s_sender().c11s_window() == Some(r.1), "C11 open bidi: send window == the PEER's initial_max_stream_data_bidi_remote");
                assert!(reader.c11s_recver().c11s_limit() == Some(l.0), "C11 open bidi: receive limit == the LOCAL initial_max_stream_data_bidi_local");
                core::mem::forget(reader);
                core::mem::forget(writer);
            }
            other => {
                core::mem::forget(other);
                panic!("parameters known, stream limit >= 1: the stream is opened");
            }
        }
    } else {
        match ds.poll_open_uni_stream(&mut cx, &arc) {
            Poll::Ready(Ok(Some((sid, writer)))) => {
                assert!(sid == sid0, "first locally opened unidirectional stream");
                assert!(writer.c11s_sender().c11s_window() == Some(r.2), "C11 open uni: send window == the PEER's initial_max_stream_data_uni");
                core::mem::forget(writer);
            }
            other => {
                core::mem::forget(other);
                panic!("parameters known, stream limit >= 1: the stream is opened");
            }
        }
    }
    assert!(wakes(0) == 0);
    kani::cover!(r.0 != r.1 && r.1 != r.2 && r.0 != r.2 && l.0 != l.1 && l.1 != l.2 && l.0 != l.2 && l.0 != r.1, "all limits pairwise different");
    kani::cover!(r.1 == 0 || r.2 == 0, "zero window");
    core::mem::forget(arc);
    core::mem::forget(ds);
}

// ------------------------------------------------------------------------------------------------
// accept

fn accept_bi<S: Side>() {
    let l = three();
    let r = three();
    let ds = streams_with(S::ROLE, l, 0, 0);
    // a frame for the peer's first bidirectional stream arrives (recv_data / recv_stream_control
    // call try_accept_sid for every peer-initiated id)
    let sid0 = StreamId::new(S::PEER, Dir::Bi, 0);
    match ds.try_accept_sid(sid0) {
        Ok(()) => {}
        Err(e) => {
            core::mem::forget(e);
            panic!("the first peer stream is within every limit");
        }
    }
    // the application accepts it; the peer's parameters may or may not be known yet
    let ready: bool = kani::any();
    let local = typed::<S::L>(l, None);
    let remote = if ready { Some(typed::<S::R>(r, None)) } else { None };
    let arc = S::state(local, remote, None);
    let w = waker(0);
    let mut cx = Context::from_waker(&w);
    match ds.listener.poll_accept_bi_stream(&mut cx, &arc) {
        Poll::Ready(Ok((sid, (reader, writer)))) => {
            assert!(ready && sid == sid0);
            assert!(reader.c11s_recver().c11s_limit() == Some(l.1), "C11 accept bidi: receive limit == the LOCAL initial_max_stream_data_bidi_remote");
            assert!(writer.c11s_sender().c11s_window() == Some(r.0), "C11 accept bidi: send window == the PEER's initial_max_stream_data_bidi_local");
            core::mem::forget(reader);
            core::mem::forget(writer);
        }
        Poll::Pending => {
            assert!(!ready, "the stream is queued: accept completes as soon as the peer's parameters are known");
        }
        other => {
            core::mem::forget(other);
            panic!("no connection error");
        }
    }
    kani::cover!(ready && r.0 != r.1 && r.0 != r.2 && l.1 != l.0 && l.1 != l.2, "limits pairwise different");
    kani::cover!(!ready, "accept before the peer's parameters are known");
    core::mem::forget(arc);
    core::mem::forget(ds);
}

fn accept_uni<S: Side>() {
    let l = three();
    let ds = streams_with(S::ROLE, l, 0, 0);
    let sid0 = StreamId::new(S::PEER, Dir::Uni, 0);
    match ds.try_accept_sid(sid0) {
        Ok(()) => {}
        Err(e) => {
            core::mem::forget(e);
            panic!("the first peer stream is within every limit");
        }
    }
    let w = waker(0);
    let mut cx = Context::from_waker(&w);
    match ds.listener.poll_accept_uni_stream(&mut cx) {
        Poll::Ready(Ok((sid, reader))) => {
            assert!(sid == sid0);
            assert!(reader.c11s_recver().c11s_limit() == Some(l.2), "C11 accept uni: receive limit == the LOCAL initial_max_stream_data_uni");
            core::mem::forget(reader);
        }
        other => {
            core::mem::forget(other);
            panic!("the queued stream is handed out");
        }
    }
    kani::cover!(l.2 != l.0 && l.2 != l.1 && l.0 != l.1, "limits pairwise different");
    kani::cover!(l.2 == 0, "zero limit");
    core::mem::forget(ds);
}

macro_rules! c11s_streams_harness {
    ($name:ident, $call:expr) => {
        #[kani::proof]
        #[kani::unwind(6)]
        #[kani::stub(std::fmt::format, stub_fmt)]
        #[kani::stub(core::fmt::write, stub_write)]
        #[kani::stub(std::sync::Mutex::lock, stub_lock)]
        #[kani::stub(qbase::net::tx::ArcSendWakers::wake_all_by, stub_wake_all_by)]
        #[kani::stub(core::slice::index::slice_index_fail, stub_slice_index_fail)]
        #[kani::stub(tracing::callsite::DefaultCallsite::interest, stub_tr_interest)]
        #[kani::stub(tracing::__macro_support::__is_enabled, stub_tr_enabled)]
        #[kani::stub(tracing::Event::dispatch, stub_tr_dispatch)]
        #[kani::stub(tracing::Span::current, stub_tracing_current)]
        #[kani::stub(qevent::telemetry::Span::current, stub_qlog_current)]
        #[kani::stub(std::hash::RandomState::new, fixed_random_state)]
        #[kani::stub(crate::streams::io::ArcOutputGuard::insert, stub_output_insert)]
        #[kani::stub(crate::streams::io::ArcInputGuard::insert, stub_input_insert)]
        fn $name() {
            $call;
        }
    };
}

c11s_streams_harness!(c11_s_new_fields_client, new_fields::<AsClient>());
c11s_streams_harness!(c11_s_new_fields_server, new_fields::<AsServer>());
c11s_streams_harness!(c11_s_open_bi_client, open_step::<AsClient, true, 0, false>());
c11s_streams_harness!(c11_s_open_bi_server, open_step::<AsServer, true, 0, false>());
c11s_streams_harness!(c11_s_open_bi_0rtt, open_step::<AsClient, true, 1, false>());
// PENDING (suspected defect): poll_open_uni_stream reads InitialMaxStreamDataBidiRemote when there are no remembered parameters
c11s_streams_harness!(c11_s_open_uni_client, open_step::<AsClient, false, 0, false>());
c11s_streams_harness!(c11_s_open_uni_server, open_step::<AsServer, false, 0, false>());
// passing twins: trigger assumed away (equal limits) / other branch (remembered parameters)
c11s_streams_harness!(c11_s_open_uni_client_eq, open_step::<AsClient, false, 0, true>());
c11s_streams_harness!(c11_s_open_uni_server_eq, open_step::<AsServer, false, 0, true>());
c11s_streams_harness!(c11_s_open_uni_0rtt, open_step::<AsClient, false, 1, false>());
c11s_streams_harness!(c11_s_accept_bi_client, accept_bi::<AsClient>());
c11s_streams_harness!(c11_s_accept_bi_server, accept_bi::<AsServer>());
c11s_streams_harness!(c11_s_accept_uni_client, accept_uni::<AsClient>());
c11s_streams_harness!(c11_s_accept_uni_server, accept_uni::<AsServer>());

