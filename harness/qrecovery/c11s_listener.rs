// Helper compiled inside qrecovery::streams::listener (overlay, cfg(kani) only). NO proof fn here.
// Property C11, stream-set level: the REAL `Listener::push_bi_stream` + `Listener::poll_accept_bi_stream`
// (the `&mut self` methods behind `ArcListener`, which only does `lock().unwrap().as_mut()` around
// them) on a listener that lives on the STACK: the same code inside Arc<Mutex<Result<..>>> costs CBMC
// two orders of magnitude more (NOTES-tracing.md, addition 6; measured again here).
use super::*;

impl<TX> ArcListener<TX>
where
    TX: SendFrame<ResetStreamFrame> + Clone + Send + 'static,
{
    /// Queue one peer-opened bidirectional stream and let the application accept it.
    #[allow(clippy::type_complexity)]
    pub(crate) fn c11s_queue_and_accept_bi(
        sid: StreamId,
        stream: (ArcRecver<TX>, ArcSender<TX>),
        cx: &mut Context<'_>,
        arc_params: &ArcParameters,
    ) -> Poll<Result<(StreamId, (Reader<TX>, Writer<TX>)), QuicError>> {
        let mut l = Listener::new();
        l.push_bi_stream(sid, stream);
        let r = l.poll_accept_bi_stream(cx, arc_params);
        core::mem::forget(l);
        r
    }

    /// Queue one peer-opened unidirectional stream and let the application accept it.
    pub(crate) fn c11s_queue_and_accept_uni(
        sid: StreamId,
        stream: ArcRecver<TX>,
        cx: &mut Context<'_>,
    ) -> Poll<Result<(StreamId, Reader<TX>), QuicError>> {
        let mut l = Listener::new();
        l.push_recv_stream(sid, stream);
        let r = l.poll_accept_recv_stream(cx);
        core::mem::forget(l);
        r
    }
}

/// Replacement for `ArcListener::guard` (see c11s_io.rs: the Err path clones the connection error;
/// here a dead listener is a failed check).
pub(crate) fn c11s_stub_listener_guard<TX>(l: &ArcListener<TX>) -> Result<ListenerGuard<'_, TX>, QuicError> {
    let guard = l.0.lock().unwrap();
    assert!(guard.is_ok(), "no connection error in this harness");
    Ok(ListenerGuard { inner: guard })
}
