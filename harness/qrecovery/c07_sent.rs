// Kani harnesses compiled inside qrecovery::journal::sent (overlay, cfg(kani) only).
// The frame queue (std VecDeque) and the VecDeque inside qbase's IndexDeque are replaced by verif_model.
//
// C07, sender half (journal level): "Within a packet-number space every packet that leaves the
// endpoint carries a strictly larger packet number than any earlier one, even when packet assembly
// is abandoned part-way ..."
//
// The number source is `sent_packets.offset + sent_packets.len` (IndexDeque::largest): the next
// number is handed out by NewPacketGuard::pn and is consumed by pushing one record. The oracle is
// written against the harness's own bookkeeping of (offset, N, packets built so far):
//
//   c07_j_sent_seq_*        an arbitrary 2/3-step sequence of {packet completed by build_with_time with
//                           k in 0..=2 frames and/or the trivial mark, trivial packet completed by
//                           build_trivial, assembly abandoned before anything was recorded} from an
//                           arbitrary valid journal (symbolic 62-bit window offset, N records,
//                           symbolic largest_acked): pn handed out == offset + N + (packets built so
//                           far); a built packet consumes exactly one number, an abandoned assembly
//                           none; numbers of built packets strictly increase; the encoded form is
//                           PacketNumber::encode(pn, largest_acked)
// (An instance with an ACK arrival — SentRotateGuard::update_largest + drop => resize draining the
// window — between two assemblies was written but ended with harness-side deallocation check failures
// that could not be triaged in the session; it was removed. The drained window is covered as a
// PRE-state: N = 0 at a symbolic offset > 0 in c07_j_sent_seq_n0_s2.)
//
// "Built" is what qconnection/src/tx.rs does before a packet leaves: PacketWriter::
// encrypt_and_protect_packet calls build_with_time, TrivialPacketWriter's calls build_trivial.
// build_with_time with NOTHING recorded (no frame, no trivial mark) consumes no number: the journal
// treats it as an abandoned assembly; that tx.rs never lets such a packet leave is the subject of
// harness/qconnection/c07_tx.rs.
use super::*;

// ---- clock / lock / tracing stubs (same constructions as journal_sent.rs) -------------------------
#[repr(C)]
struct RawTs {
    s: i64,
    n: u32,
}

fn mk_instant(secs: u64) -> Instant {
    let std_i: std::time::Instant = unsafe { core::mem::transmute(RawTs { s: secs as i64, n: 0 }) };
    Instant::from_std(std_i)
}

const T_MAX: u64 = 1u64 << 40;

static mut NOW_SECS: u64 = 0;

/// Stub for tokio::time::Instant::now: an instant chosen by the harness.
fn stub_now() -> Instant {
    mk_instant(unsafe { NOW_SECS })
}

fn stub_mutex_lock<T: ?Sized>(m: &std::sync::Mutex<T>) -> std::sync::LockResult<std::sync::MutexGuard<'_, T>> {
    match m.try_lock() {
        Ok(g) => Ok(g),
        Err(std::sync::TryLockError::Poisoned(p)) => Err(p),
        Err(std::sync::TryLockError::WouldBlock) => panic!("self-deadlock: mutex already held"),
    }
}

fn stub_tr_interest(_c: &'static tracing::callsite::DefaultCallsite) -> tracing::subscriber::Interest {
    tracing::subscriber::Interest::never()
}
fn stub_tr_enabled(_m: &tracing::Metadata<'static>, _i: tracing::subscriber::Interest) -> bool {
    false
}
fn stub_tr_dispatch<'a: 'a>(_m: &'static tracing::Metadata<'static>, _f: &'a tracing::field::ValueSet<'_>) {}

// ---- pre-states --------------------------------------------------------------------------------
const SKIPPED: u8 = 0;
const FLIGHTING: u8 = 1;
const RETRANS: u8 = 2;
const ACKED: u8 = 3;

const TAG0: u64 = 1000;
const M62: u64 = 1u64 << 62;
/// frames per packet record in the pre-state
const MAXF: usize = 1;

type J = SentJournal<u64>;

struct Pre<const N: usize> {
    off: u64,
    la: u64,
    kinds: [u8; N],
    nfr: [usize; N],
    expire: [u64; N],
    total: usize,
}

/// A journal with exactly N packet records of symbolic kind satisfying K (queue.len() == sum of
/// nframes), at window offset `off` (None: symbolic, full 62-bit width), with a symbolic
/// largest_acked_pktno <= offset + N (update_largest refuses anything larger).
fn any_journal<const N: usize>(off: Option<u64>, sym_time: bool) -> (J, Pre<N>) {
    let mut j = J::default();
    let mut pre = Pre { off: 0, la: 0, kinds: [SKIPPED; N], nfr: [0; N], expire: [0; N], total: 0 };
    let mut i = 0;
    while i < N {
        let kind: u8 = kani::any();
        kani::assume(kind < 4);
        let nframes: usize = kani::any();
        kani::assume(nframes <= MAXF);
        let exp = if sym_time {
            let s: u64 = kani::any();
            kani::assume(s < T_MAX);
            s
        } else {
            9
        };
        let sent_time = mk_instant(5);
        let expire_time = mk_instant(exp);
        let retran_time = mk_instant(7);
        let (st, nf) = match kind {
            SKIPPED => (SentPktState::Skipped, 0),
            FLIGHTING => (SentPktState::Flighting { nframes, sent_time, expire_time, retran_time }, nframes),
            RETRANS => (SentPktState::Retransmitted { nframes, sent_time, expire_time }, nframes),
            _ => (SentPktState::Acked { nframes, sent_time, expire_time }, nframes),
        };
        pre.kinds[i] = kind;
        pre.nfr[i] = nf;
        pre.expire[i] = exp;
        // pushed at offset 0 (IndexDeque::push_back's limit test is decided during symbolic
        // execution); the window is moved to its position afterwards
        j.sent_packets.push_back(st).unwrap();
        let mut f = 0;
        while f < MAXF {
            if f < nf {
                j.queue.push_back(TAG0 + (pre.total + f) as u64);
            }
            f += 1;
        }
        pre.total += nf;
        i += 1;
    }
    let off = match off {
        Some(o) => o,
        None => {
            let o: u64 = kani::any();
            kani::assume(o < M62 - 16);
            o
        }
    };
    j.sent_packets.reset_offset(off);
    let la: u64 = kani::any();
    kani::assume(la <= off + N as u64);
    j.largest_acked_pktno = la;
    pre.off = off;
    pre.la = la;
    (j, pre)
}

// ---- one packet assembly ---------------------------------------------------------------------
const BUILD_WITH_TIME: u8 = 0;
const BUILD_TRIVIAL: u8 = 1;
const ABANDON: u8 = 2;

#[derive(Clone, Copy)]
struct Outcome {
    pn: u64,
    /// the packet was completed (build_*) with something recorded: it leaves the endpoint
    built: bool,
    frames: usize,
}

/// One assembly of symbolic kind through the public API. `expect_pn`/`expect_la`: the harness's
/// bookkeeping of the next unused number and of largest_acked.
fn one_assembly<const KMAX: usize>(arc: &ArcSentJournal<u64>, expect_pn: u64, expect_la: u64, next_tag: u64) -> Outcome {
    let kind: u8 = kani::any();
    kani::assume(kind <= ABANDON);
    let mut g = arc.new_packet();
    let (pn, enc) = g.pn();
    assert!(pn == expect_pn, "pn handed out == offset + N + packets built so far (next unused number)");
    assert!(enc == PacketNumber::encode(expect_pn, expect_la), "encoded form == encode(pn, largest_acked)");
    match kind {
        BUILD_WITH_TIME => {
            let k: usize = kani::any();
            kani::assume(k <= KMAX);
            let trivial: bool = kani::any();
            let mut f = 0;
            while f < KMAX {
                if f < k {
                    g.record_frame(next_tag + f as u64);
                }
                f += 1;
            }
            if trivial {
                g.record_trivial();
            }
            assert!(g.pn().0 == pn, "pn() is stable while the packet is assembled");
            // timeouts are irrelevant to C07 (C10/C13's subject): concrete, no symbolic division
            g.build_with_time(Duration::from_secs(1), Duration::from_secs(3));
            Outcome { pn, built: k > 0 || trivial, frames: k }
        }
        BUILD_TRIVIAL => {
            g.record_trivial();
            let twice: bool = kani::any();
            if twice {
                g.record_trivial(); // two non-retransmittable frames in one packet
            }
            assert!(g.pn().0 == pn);
            g.build_trivial();
            Outcome { pn, built: true, frames: 0 }
        }
        _ => {
            // assembly abandoned before anything was recorded (tx.rs: `assemble_packet(..)?`
            // returned Err because no package had anything to write)
            drop(g);
            Outcome { pn, built: false, frames: 0 }
        }
    }
}

/// Post-state: window start untouched, one record per built packet behind the N old ones (Skipped for
/// 0 frames, Flighting{nframes} otherwise), old records untouched, K holds.
fn check_post<const N: usize, const S: usize>(j: &J, pre: &Pre<N>, outs: &[Outcome; S]) {
    let mut nbuilt = 0usize;
    let mut nframes = 0usize;
    let mut i = 0;
    while i < S {
        if outs[i].built {
            nbuilt += 1;
            nframes += outs[i].frames;
        }
        i += 1;
    }
    assert!(j.sent_packets.offset() == pre.off, "new_packet never moves the window start");
    assert!(j.sent_packets.len() == N + nbuilt, "one record per packet built, none for an abandoned assembly");
    assert!(j.sent_packets.largest() == pre.off + (N + nbuilt) as u64);
    assert!(j.largest_acked_pktno == pre.la);
    assert!(j.queue.len() == pre.total + nframes, "K: queue.len() == sum of nframes");
    // the packets built, in order
    let mut bl: [(u64, usize); S] = [(0, 0); S];
    let mut nb = 0usize;
    let mut i = 0;
    while i < S {
        if outs[i].built {
            bl[nb] = (outs[i].pn, outs[i].frames);
            nb += 1;
        }
        i += 1;
    }
    let mut idx = 0usize;
    let mut sum = 0usize;
    for (pn, s) in j.sent_packets.enumerate() {
        assert!(pn == pre.off + idx as u64);
        if idx < N {
            assert!(kind_of(s) == pre.kinds[idx] && s.nframes() == pre.nfr[idx], "earlier records untouched");
        } else {
            assert!(idx - N < nb);
            let (bpn, bfr) = bl[idx - N];
            assert!(bpn == pn, "the record of a built packet sits at the number it was given");
            assert!(s.nframes() == bfr);
            assert!(kind_of(s) == if bfr > 0 { FLIGHTING } else { SKIPPED });
        }
        sum += s.nframes();
        idx += 1;
    }
    assert!(sum == j.queue.len());
}

fn kind_of(s: &SentPktState) -> u8 {
    match s {
        SentPktState::Skipped => SKIPPED,
        SentPktState::Flighting { .. } => FLIGHTING,
        SentPktState::Retransmitted { .. } => RETRANS,
        SentPktState::Acked { .. } => ACKED,
    }
}

// ---- c07_j_sent_seq ---------------------------------------------------------------------------
fn seq_steps<const N: usize, const S: usize, const KMAX: usize>() {
    let (j, pre) = any_journal::<N>(None, false);
    // PacketNumber::encode's documented precondition (pn - largest_acked < 2^31) for every number
    // this sequence can hand out
    kani::assume(pre.off + (N + S) as u64 - pre.la < (1u64 << 31));
    unsafe { NOW_SECS = 100 };
    let arc = ArcSentJournal(Arc::new(Mutex::new(j)));
    let mut outs = [Outcome { pn: 0, built: false, frames: 0 }; S];
    let mut next_pn = pre.off + N as u64;
    let mut tag = TAG0 + pre.total as u64;
    let mut i = 0;
    while i < S {
        let o = one_assembly::<KMAX>(&arc, next_pn, pre.la, tag);
        if o.built {
            next_pn += 1;
        }
        tag += o.frames as u64;
        outs[i] = o;
        i += 1;
    }
    // numbers of packets that left the endpoint strictly increase; an abandoned number is reissued
    let mut a = 0;
    while a < S {
        let mut b = a + 1;
        while b < S {
            if outs[a].built && outs[b].built {
                assert!(outs[a].pn < outs[b].pn, "no packet number is used by two packets");
            }
            assert!(outs[a].pn <= outs[b].pn, "numbers handed out never decrease");
            b += 1;
        }
        a += 1;
    }
    // what the NEXT assembly would get
    {
        let g = arc.new_packet();
        assert!(g.pn().0 == next_pn);
        if S > 0 && outs[S - 1].built {
            assert!(g.pn().0 == outs[S - 1].pn + 1, "after a built packet the next number is old + 1");
        }
        drop(g); // nothing recorded: abandons
    }
    let g = arc.0.try_lock().unwrap();
    check_post(&g, &pre, &outs);
    core::mem::forget(g);
    kani::cover!(outs[0].built && outs[0].frames == 0 && outs[S - 1].built, "trivial packet consumed a number, another packet follows");
    kani::cover!(outs[0].built && outs[0].frames == KMAX && !outs[S - 1].built, "frames recorded, later assembly abandoned");
    kani::cover!(!outs[0].built && outs[S - 1].built && outs[S - 1].pn == outs[0].pn && pre.off > (1u64 << 60), "abandoned number reissued to the next packet, large window offset");
    core::mem::forget(arc);
}

#[kani::proof]
#[kani::unwind(10)]
#[kani::stub(std::sync::Mutex::lock, stub_mutex_lock)]
#[kani::stub(tokio::time::Instant::now, stub_now)]
fn c07_j_sent_seq_n0_s2() {
    seq_steps::<0, 2, 2>();
}

#[kani::proof]
#[kani::unwind(10)]
#[kani::stub(std::sync::Mutex::lock, stub_mutex_lock)]
#[kani::stub(tokio::time::Instant::now, stub_now)]
fn c07_j_sent_seq_n2_s2() {
    seq_steps::<2, 2, 1>();
}

#[kani::proof]
#[kani::unwind(10)]
#[kani::stub(std::sync::Mutex::lock, stub_mutex_lock)]
#[kani::stub(tokio::time::Instant::now, stub_now)]
fn c07_j_sent_seq_n1_s3() {
    seq_steps::<1, 3, 1>();
}
