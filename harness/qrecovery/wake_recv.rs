// C16 — the stream reader's waker in the `Recv` state (qrecovery/src/recv/recver.rs):
// waiter = Recv::poll_read / poll_next (the application reading the stream), notifiers =
// Recv::recv (STREAM frame), determin_size (FIN), recv_reset (RESET_STREAM), wake_reader
// (connection error / stop). Compiled inside qrecovery::recv::recver (overlay, cfg(kani) only).
//
// Every method of Incoming/Reader holds the `Mutex<Result<Recver, Error>>` for its whole body, so
// the inner `&mut Recv` methods are the atomic steps; they run here on a stack value.
//
// Inductive formulation (schedules of ANY length). Ghost `asleep` = "the reader's last poll returned
// Pending and its waker has not been invoked since".
//   INV:  asleep  =>  read_waker is the reader's waker  &&  !rcvbuf.is_readable()
// INV holds initially; every atomic step from ANY state satisfying INV re-establishes it; the
// closing steps (FIN / reset / wake_reader) wake the sleeper unconditionally.
// Pre-state: nothing read yet, RecvBuf empty or holding one segment [a,b) inside an 8-byte window
// (a > 0: a gap in front, not readable; a == 0: readable), built through RecvBuf's own API.
use core::task::{Context, Poll};

use qbase::{role::Role, sid::Dir};

use super::*;

include!("../qbase/wake_common.rs");
use vwk::{waker, wakes};

const W: u64 = 8;
static SEQ: [u8; 8] = [0, 1, 2, 3, 4, 5, 6, 7];

fn content(from: u64, to: u64) -> Bytes {
    Bytes::from_static(&SEQ).slice(from as usize..to as usize)
}

#[derive(Clone, Debug)]
struct Sink;
impl SendFrame<MaxStreamDataFrame> for Sink {
    fn send_frame<I: IntoIterator<Item = MaxStreamDataFrame>>(&self, iter: I) {
        for _f in iter {}
    }
}
impl SendFrame<StopSendingFrame> for Sink {
    fn send_frame<I: IntoIterator<Item = StopSendingFrame>>(&self, iter: I) {
        for _f in iter {}
    }
}

fn stub_fmt(_args: core::fmt::Arguments<'_>) -> String {
    String::new()
}

/// The reader's buffer: a recording BufMut with fixed capacity.
struct Dst {
    buf: [u8; 8],
    pos: usize,
    cap: usize,
}
unsafe impl BufMut for Dst {
    fn remaining_mut(&self) -> usize {
        self.cap - self.pos
    }
    unsafe fn advance_mut(&mut self, cnt: usize) {
        self.pos += cnt;
    }
    fn chunk_mut(&mut self) -> &mut bytes::buf::UninitSlice {
        bytes::buf::UninitSlice::new(&mut self.buf[self.pos..self.cap])
    }
}

struct Pre {
    r: Recv<Sink>,
    asleep: bool,
}

fn registered(r: &Recv<Sink>) -> bool {
    match r.read_waker.as_ref() {
        Some(w) => w.will_wake(&waker(0)),
        None => false,
    }
}

fn inv(r: &Recv<Sink>, asleep: bool) -> bool {
    !asleep || (registered(r) && !r.rcvbuf.is_readable())
}

fn any_pre<const SEGS: usize>() -> Pre {
    let mut rcvbuf = rcvbuf::RecvBuf::default();
    if SEGS == 1 {
        let a: u64 = kani::any();
        let b: u64 = kani::any();
        kani::assume(a < b && b <= W);
        rcvbuf.recv(a, content(a, b));
    }
    let buffered = rcvbuf.largest_offset();
    let largest: u64 = kani::any();
    let max_stream_data: u64 = kani::any();
    kani::assume(buffered <= largest && largest <= max_stream_data && max_stream_data <= VARINT_MAX);
    let asleep: bool = kani::any();
    let stale: bool = kani::any();
    let r = Recv {
        stream_id: StreamId::new(Role::Client, Dir::Bi, 0),
        rcvbuf,
        read_waker: if asleep || stale { Some(waker(0)) } else { None },
        stop_state: None,
        broker: Sink,
        largest,
        max_stream_data,
    };
    kani::assume(inv(&r, asleep));
    Pre { r, asleep }
}

/// waiter step: poll_read. Pending iff no contiguous data, and then the reader is registered.
fn step_poll_read<const SEGS: usize>() {
    let mut p = any_pre::<SEGS>();
    let readable = p.r.rcvbuf.is_readable();
    let before = wakes(0);
    let mut dst = Dst { buf: [0xff; 8], pos: 0, cap: 4 };
    let w = waker(0);
    let mut cx = Context::from_waker(&w);
    let res = p.r.poll_read(&mut cx, &mut dst);
    match res {
        Poll::Pending => {
            assert!(!readable, "Pending only without contiguous data");
            assert!(dst.pos == 0);
            p.asleep = true;
        }
        Poll::Ready(()) => {
            assert!(readable && dst.pos > 0, "Ready delivers data");
            p.asleep = false;
        }
    }
    assert!(wakes(0) == before, "polling wakes nobody");
    assert!(inv(&p.r, p.asleep), "a Pending poll leaves the reader registered");
    kani::cover!(p.asleep, "reader parked");
    kani::cover!(SEGS == 0 || !p.asleep, "data read");
    core::mem::forget(p);
}

#[kani::proof]
#[kani::unwind(6)]
fn c16_recv_step_poll_read_empty() {
    step_poll_read::<0>();
}

#[kani::proof]
#[kani::unwind(6)]
fn c16_recv_step_poll_read_seg() {
    step_poll_read::<1>();
}

/// notifier step: a STREAM frame (no FIN) inside the window arrives.
#[kani::proof]
#[kani::unwind(6)]
#[kani::stub(std::fmt::format, stub_fmt)]
fn c16_recv_step_recv() {
    let mut p = any_pre::<0>();
    let off: u64 = kani::any();
    let len: u64 = kani::any();
    kani::assume(off <= W && len <= W - off);
    let frame = StreamFrame::new(p.r.stream_id, off, len as usize);
    let before = wakes(0);
    let was_registered = registered(&p.r);
    let res = p.r.recv(frame, content(off, off + len));
    let readable = p.r.rcvbuf.is_readable();
    match &res {
        Ok(_) => {
            assert!(readable == (off == 0 && len > 0), "readable iff the frame starts at the read position");
            assert!(wakes(0) == before + if readable && was_registered { 1 } else { 0 }, "registered reader woken exactly once iff data became readable");
            if p.asleep && readable {
                assert!(wakes(0) == before + 1, "no lost wake-up: data became readable while the reader sleeps");
            }
        }
        Err(_) => {
            assert!(off + len > p.r.max_stream_data);
            assert!(wakes(0) == before && !readable, "a rejected frame changes nothing");
        }
    }
    if wakes(0) != before {
        p.asleep = false;
    }
    assert!(inv(&p.r, p.asleep), "INV re-established (still registered if still not readable)");
    kani::cover!(res.is_ok() && readable && was_registered, "sleeping reader woken by data");
    kani::cover!(res.is_ok() && !readable && p.asleep, "data behind a gap: reader stays asleep, still registered");
    kani::cover!(res.is_err(), "flow-control violation");
    core::mem::forget(res);
    core::mem::forget(p);
}

/// closing steps: FIN (determin_size), RESET_STREAM (recv_reset), connection error / stop
/// (wake_reader) wake the sleeping reader unconditionally.
#[kani::proof]
#[kani::unwind(6)]
#[kani::stub(std::fmt::format, stub_fmt)]
fn c16_recv_step_close() {
    let mut p = any_pre::<0>();
    let before = wakes(0);
    let was_registered = registered(&p.r);
    let which: u8 = kani::any();
    kani::assume(which < 3);
    let mut completed = true;
    match which {
        0 => {
            let off: u64 = kani::any();
            let len: u64 = kani::any();
            kani::assume(off <= W && len <= W - off);
            let mut frame = StreamFrame::new(p.r.stream_id, off, len as usize);
            frame.set_eos_flag(true);
            let res = p.r.determin_size(&frame);
            // the reader is woken whether or not the final size is acceptable
            match &res {
                Ok(sk) => assert!(sk.read_waker.is_none(), "no stale registration is carried into SizeKnown"),
                Err(_) => {}
            }
            core::mem::forget(res);
        }
        1 => {
            let fs: u64 = kani::any();
            kani::assume(fs <= VARINT_MAX);
            let reset = ResetStreamFrame::new(p.r.stream_id, VarInt::from_u32(0), VarInt::from_u64(fs).unwrap());
            let res = p.r.recv_reset(&reset);
            // Err(FinalSize) is a connection error: the connection's on_conn_error wakes the reader
            completed = res.is_ok();
            assert!(res.is_ok() == (fs >= p.r.largest));
            core::mem::forget(res);
        }
        _ => p.r.wake_reader(),
    }
    if completed {
        assert!(wakes(0) == before + if was_registered { 1 } else { 0 }, "closing wakes the registered reader exactly once");
        if p.asleep {
            assert!(wakes(0) == before + 1, "closing the stream wakes the sleeping reader");
        }
        assert!(p.r.read_waker.is_none());
    } else {
        assert!(wakes(0) == before);
    }
    kani::cover!(which == 0 && p.asleep, "FIN wakes the sleeper");
    kani::cover!(which == 1 && completed && p.asleep, "RESET_STREAM wakes the sleeper");
    kani::cover!(which == 2 && p.asleep, "connection error wakes the sleeper");
    core::mem::forget(p);
}
