// Kani harnesses compiled inside qcongestion::rtt (overlay, cfg(kani) only).
// Property C13: probe-timeout interval (Rtt::base_pto) and loss-delay bounds.
use super::*;

include!("c13_common.rs");

/// Builds an estimator with the given values (used by the controller harnesses in
/// congestion.rs, which cannot see Rtt's private fields).
pub(crate) fn h_make_rtt(smoothed_rtt: Duration, rttvar: Duration, latest_rtt: Duration, has_sample: Option<Instant>) -> ArcRtt {
    ArcRtt(Arc::new(Mutex::new(Rtt {
        max_ack_delay: Duration::from_millis(0),
        first_rtt_sample: has_sample,
        latest_rtt,
        smoothed_rtt,
        rttvar,
        min_rtt: latest_rtt,
    })))
}

const MAX_RTT_S: u64 = 600;

fn any_rtt() -> Rtt {
    Rtt {
        max_ack_delay: any_dur(17),
        first_rtt_sample: None,
        latest_rtt: any_dur(MAX_RTT_S),
        smoothed_rtt: any_dur(MAX_RTT_S),
        rttvar: any_dur(MAX_RTT_S),
        min_rtt: any_dur(MAX_RTT_S),
    }
}

/// PTO without backoff is smoothed_rtt + max(4 rttvar, 1 ms) (RFC 9002 section 6.2.1); every further
/// expiry lengthens the interval, by at most a factor two.
fn pto_step(n: u32, exact_doubling: bool) {
    let r = any_rtt();
    let var = core::cmp::max(4 * r.rttvar, Duration::from_millis(1));
    assert!(r.base_pto(0) == r.smoothed_rtt + var, "PTO = smoothed_rtt + max(4 rttvar, kGranularity)");
    let p0 = r.base_pto(n);
    let p1 = r.base_pto(n + 1);
    assert!(p1 > p0, "each consecutive probe timeout is longer");
    assert!(p1 <= 2 * p0, "... by at most a factor two");
    assert!(p1 >= p0 + var, "... and by at least the variance term");
    if exact_doubling {
        assert!(p1 == 2 * p0, "the probe timeout doubles on every expiry");
    }
    kani::cover!(r.smoothed_rtt > Duration::from_millis(1) && r.rttvar > Duration::ZERO, "non-trivial estimator");
}

macro_rules! pto_harness {
    ($name:ident, $n:expr) => {
        #[kani::proof]
        fn $name() {
            pto_step($n, false);
        }
    };
}
pto_harness!(c13_pto_backoff_0, 0);
pto_harness!(c13_pto_backoff_1, 1);
pto_harness!(c13_pto_backoff_2, 2);
pto_harness!(c13_pto_backoff_3, 3);
pto_harness!(c13_pto_backoff_4, 4);
pto_harness!(c13_pto_backoff_5, 5);
pto_harness!(c13_pto_backoff_6, 6);

/// SUSPECTED DEFECT (tier "pending"): `smoothed_rtt + max(4*rttvar, granularity) * (1 << pto_count)`
/// multiplies only the variance term (operator precedence); RFC 9002 section 6.2.1 / A.8 and the doc
/// comment above the function say (smoothed_rtt + max(4*rttvar, granularity)) * 2^pto_count.
#[kani::proof]
fn c13_pending_pto_doubles() {
    pto_step(0, true);
}

/// loss_delay = max(9/8 * max(latest_rtt, smoothed_rtt), 1 ms) up to f32 rounding.
#[kani::proof]
fn c13_rtt_loss_delay() {
    let r = any_rtt();
    let m = core::cmp::max(r.latest_rtt, r.smoothed_rtt);
    kani::assume(m <= Duration::from_secs(60));
    let d = r.loss_delay();
    assert!(d >= Duration::from_millis(1), "never below the timer granularity");
    assert!(d >= m, "time threshold is at least the larger of latest and smoothed RTT");
    assert!(d <= m + m / 4 + Duration::from_millis(1), "and close to 9/8 of it");
    kani::cover!(m > Duration::from_millis(100), "large rtt");
}

/// Stub for `std::hash::RandomState::new` (DESIGN.md section 2.3 `fixed_random_state`): `Rtt::update`
/// eagerly builds a `RecoveryMetricsUpdated` whose `custom_fields: HashMap<String, Value>` is
/// default-constructed; the real `RandomState::new` reads thread-local keys seeded by the
/// `getrandom` syscall (foreign function, not modelled by CBMC). The map stays empty and is never
/// hashed into, so the key values are irrelevant.
fn fixed_random_state() -> std::hash::RandomState {
    unsafe { core::mem::transmute::<[u64; 2], std::hash::RandomState>([0, 0]) }
}

/// First RTT sample (no floating point on this path).
#[kani::proof]
#[kani::stub(tokio::time::Instant::now, sym_now)]
#[kani::stub(is_symbolic_run, stub_yes)]
#[kani::stub(qevent::telemetry::macro_support::build_and_emit_event, no_emit)]
#[kani::stub(std::hash::RandomState::new, fixed_random_state)]
fn c13_rtt_first_sample() {
    let now = h_start();
    let mut r = any_rtt();
    let latest = any_dur(MAX_RTT_S);
    let delay = any_dur(17);
    r.update(latest, delay, kani::any());
    assert!(r.latest_rtt == latest && r.smoothed_rtt == latest && r.min_rtt == latest && r.rttvar == latest / 2);
    assert!(r.first_rtt_sample == Some(now));
    kani::cover!(latest > Duration::from_millis(1));
}
