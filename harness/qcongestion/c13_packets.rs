// Kani harnesses compiled inside qcongestion::packets (overlay, cfg(kani) only).
// Property C13, loss-detection clauses: one step of PacketSpace::{detect_lost_packets, on_ack_rcvd,
// discard, no_ack_eliciting_in_flight} from an arbitrary valid pre-state with N tracked packets
// (N concrete per instance, contents symbolic), against pointwise oracles. The congestion
// controller behind `Box<dyn Control>` is a recording mock, so "reported to the algorithm exactly
// once" is checked literally.
//
// Representation invariant I of a packet-number space (maintained by on_packet_sent / on_ack_rcvd,
// re-established by the on_ack harness):
//   * packet numbers strictly increase along the deque (every sent packet is pushed at the back);
//   * largest_acked_packet = Some(L): the packet numbered L is either still tracked, in state
//     Acked, or it has been trimmed together with everything older (all tracked numbers > L);
//     no tracked packet above L is Acked;
//   * largest_acked_packet = None: no tracked packet is Acked.
use super::*;
// `Vec` in this module is std's; the parent module's `Vec` / `VecDeque` are KVec / KDeque under cfg(kani)
use std::vec::Vec;

include!("c13_common.rs");

include!("c13_kmodel.rs");

const MAXN: usize = 4;
const MAX_PKT: usize = 65_535;

// NOTE on style: Kani attaches a reachability check (and CBMC a full JSON trace, ~8 MB here) to
// every check site (assert, arithmetic-overflow, index) of reachable code; harness wall time is
// dominated by kani-driver parsing those traces. Hence: wrapping counters, iterator walks instead
// of indexing, few (conjoined) assertions.

#[derive(Clone, Copy)]
struct P {
    pn: u64,
    t: Instant,
    ae: bool,
    sz: usize,
    st: u8, // 0 Inflight, 1 Acked, 2 Retransmitted
    cc: bool,
}

fn st_of(s: &State) -> u8 {
    match s {
        State::Inflight => 0,
        State::Acked => 1,
        State::Retransmitted => 2,
    }
}

fn snap_pkt(p: &SentPacket) -> P {
    P { pn: p.packet_number, t: p.time_sent, ae: p.ack_eliciting, sz: p.sent_bytes, st: st_of(&p.state), cc: p.count_for_cc }
}

fn same_pkt(p: &SentPacket, q: &P, st: u8) -> bool {
    p.packet_number == q.pn && p.time_sent == q.t && p.ack_eliciting == q.ae && p.sent_bytes == q.sz && p.count_for_cc == q.cc && st_of(&p.state) == st
}

/// Congestion controller mock: counts, per tracked packet (identified by its unique packet
/// number), how often it was reported acked / lost / removed, and in which state it was handed over.
struct Chk {
    pns: [Option<u64>; MAXN],
    acked: [u8; MAXN],
    acked_st: [u8; MAXN],
    lost: [u8; MAXN],
    lost_st: [u8; MAXN],
    removed: [u8; MAXN],
    removed_st: [u8; MAXN],
    lost_calls: u8,
    removed_calls: u8,
    persistent: bool,
    in_order: bool,
    last: Option<u64>,
    unknown: u8,
    other: u8,
}

impl Chk {
    fn new(pns: [Option<u64>; MAXN]) -> Self {
        Chk { pns, acked: [0; MAXN], acked_st: [9; MAXN], lost: [0; MAXN], lost_st: [9; MAXN], removed: [0; MAXN], removed_st: [9; MAXN],
              lost_calls: 0, removed_calls: 0, persistent: false, in_order: true, last: None, unknown: 0, other: 0 }
    }
}

fn mark(pns: &[Option<u64>; MAXN], cnt: &mut [u8; MAXN], st: &mut [u8; MAXN], p: &SentPacket) -> bool {
    let mut found = false;
    let mut j = 0usize;
    while j < MAXN {
        if pns[j] == Some(p.packet_number) {
            cnt[j] = cnt[j].wrapping_add(1);
            st[j] = st_of(&p.state);
            found = true;
        }
        j = j.wrapping_add(1);
    }
    found
}

impl Control for Chk {
    fn on_packet_sent_cc(&mut self, _packet: &SentPacket) {
        self.other = self.other.wrapping_add(1);
    }
    fn on_packet_acked(&mut self, p: &SentPacket) {
        if !mark(&self.pns, &mut self.acked, &mut self.acked_st, p) {
            self.unknown = self.unknown.wrapping_add(1);
        }
    }
    fn on_packets_lost(&mut self, lost_packets: &mut dyn Iterator<Item = &SentPacket>, persistent_lost: bool) {
        self.lost_calls = self.lost_calls.wrapping_add(1);
        self.persistent = persistent_lost;
        for p in lost_packets {
            if !mark(&self.pns, &mut self.lost, &mut self.lost_st, p) {
                self.unknown = self.unknown.wrapping_add(1);
            }
            if let Some(l) = self.last {
                self.in_order &= l < p.packet_number;
            }
            self.last = Some(p.packet_number);
        }
    }
    fn process_ecn(&mut self, _ack: &AckFrame, _sent_time: &Instant, _epoch: Epoch) {
        self.other = self.other.wrapping_add(1);
    }
    fn congestion_window(&self) -> usize {
        0
    }
    fn pacing_rate(&self) -> Option<usize> {
        None
    }
    fn remove_from_bytes_in_flight(&mut self, packets: &mut dyn Iterator<Item = &SentPacket>) {
        self.removed_calls = self.removed_calls.wrapping_add(1);
        for p in packets {
            if !mark(&self.pns, &mut self.removed, &mut self.removed_st, p) {
                self.unknown = self.unknown.wrapping_add(1);
            }
        }
    }
}

fn any_st() -> State {
    let s: u8 = kani::any();
    kani::assume(s < 3);
    match s {
        0 => State::Inflight,
        1 => State::Acked,
        _ => State::Retransmitted,
    }
}

/// Arbitrary space satisfying invariant I with exactly N tracked packets whose numbers lie in
/// [base, base + window).
fn any_space<const N: usize>(now: Instant, mad: Duration, base: u64, window: u64) -> (PacketSpace, [P; N], [Option<u64>; MAXN]) {
    let mut space = PacketSpace::with_epoch(Epoch::Data, mad);
    let largest: Option<u64> = if kani::any() {
        let l: u64 = kani::any();
        kani::assume(l < base.wrapping_add(window));
        Some(l)
    } else {
        None
    };
    space.largest_acked_packet = largest;
    space.loss_time = if kani::any() { Some(any_instant_before(now)) } else { None };
    space.time_of_last_ack_eliciting_packet = if kani::any() { Some(any_instant_before(now)) } else { None };
    let mut prev: Option<u64> = None;
    let mut present = false;
    let mut all_above = true;
    let pre: [P; N] = core::array::from_fn(|_| {
        let pn: u64 = kani::any();
        kani::assume(pn >= base && pn < base.wrapping_add(window));
        kani::assume(match prev { Some(q) => pn > q, None => true });
        prev = Some(pn);
        let sz: usize = kani::any();
        kani::assume(sz <= MAX_PKT);
        let mut pkt = SentPacket::new(pn, any_instant_before(now), kani::any(), kani::any(), sz);
        pkt.state = any_st();
        match largest {
            None => kani::assume(pkt.state != State::Acked),
            Some(l) => {
                if pn == l {
                    kani::assume(pkt.state == State::Acked);
                    present = true;
                }
                if pn > l {
                    kani::assume(pkt.state != State::Acked);
                } else {
                    all_above = false;
                }
            }
        }
        let s = snap_pkt(&pkt);
        space.sent_packets.push_back(pkt);
        s
    });
    kani::assume(present || all_above);
    let mut pns: [Option<u64>; MAXN] = [None; MAXN];
    let mut i = 0usize;
    while i < N {
        pns[i] = Some(pre[i].pn);
        i = i.wrapping_add(1);
    }
    (space, pre, pns)
}

fn any_base() -> u64 {
    let b: u64 = kani::any();
    kani::assume(b <= (1u64 << 62) - 64);
    b
}

fn boxed(chk: Chk) -> (Box<dyn Control>, *const Chk) {
    let b = Box::new(chk);
    let p: *const Chk = &*b;
    (b, p)
}

// ---------------------------------------------------------------------------------------------
// detect_lost_packets

/// `pending_clause = false`: everything except the "a later packet has been acknowledged" clause
/// for time-threshold losses (that clause is c13_pending_lost_needs_later_ack).
fn detect_step<const N: usize>(pending_clause: bool) {
    let now = h_start();
    let mad = any_dur(17); // max_ack_delay < 2^14 ms
    let base = any_base();
    let (mut space, pre, pns) = any_space::<N>(now, mad, base, 16);
    // The packet threshold is a parameter of the function (the controller passes the constant
    // PACKET_THRESHOLD = 3, pinned by c13_cc_constants). Shapes with 4 tracked packets do not
    // finish (> 15 min), so the rule "lost iff the largest acknowledged packet is at least
    // `threshold` positions newer" is checked for every threshold in 1..=3 on the shapes that do.
    let thr: usize = kani::any();
    kani::assume(thr >= 1 && thr <= 3);
    let loss_delay = any_dur(H_MAX_AGE_S);
    kani::assume(loss_delay >= Duration::from_millis(1)); // Rtt::loss_delay() >= kGranularity
    let (mut algo, cp) = boxed(Chk::new(pns));
    let largest = space.largest_acked_packet;

    let mut it = space.detect_lost_packets(loss_delay, thr, &mut algo);
    let out: [Option<u64>; MAXN] = [it.next(), it.next(), it.next(), it.next()];
    let exhausted = it.next().is_none();
    let chk: &Chk = unsafe { &*cp };

    // ---- oracle -----------------------------------------------------------------------------
    let threshold_time = now - loss_delay - mad;
    let l = match largest { Some(l) => l, None => 0 };
    // position of the largest acknowledged packet in the deque
    let mut below = 0usize;
    let mut found = false;
    let mut i = 0usize;
    while i < N {
        let q = pre[i];
        if q.pn < l { below = below.wrapping_add(1); }
        if q.pn == l { found = true; }
        i = i.wrapping_add(1);
    }
    let li = if found { below } else if below > 0 { below.wrapping_sub(1) } else { 0 };
    let mut li_acked = false; // invariant I: li is the position of the packet numbered L, which is Acked
    let mut i = 0usize;
    while i < N {
        let q = pre[i];
        if i == li && q.st == 1 && q.pn == l { li_acked = true; }
        i = i.wrapping_add(1);
    }

    let mut ok_state = true;      // per-packet post-state
    let mut ok_out = true;        // returned numbers == lost numbers
    let mut ok_ctl = true;        // controller told exactly the lost packets, once, in state Retransmitted
    let mut ok_thresh = true;     // property level: packet-threshold loss has an acked packet >= 3 positions newer
    let mut ok_pending = true;    // property level: some later packet acknowledged
    let mut n_lost = 0usize;
    let mut exp_loss_time: Option<Instant> = None;
    let mut lost = [false; MAXN];
    let mut i = 0usize;
    while i < N {
        let q = pre[i];
        let p = &space.sent_packets[i];
        let cnt = chk.lost[i];
        let cst = chk.lost_st[i];
        let by_time = q.t < threshold_time;
        let by_count = li >= i.wrapping_add(thr);
        let is_lost = q.st == 0 && (by_time || by_count);
        lost[i] = is_lost;
        let in_out = out[0] == Some(q.pn) || out[1] == Some(q.pn) || out[2] == Some(q.pn) || out[3] == Some(q.pn);
        ok_out &= in_out == is_lost;
        if is_lost {
            n_lost = n_lost.wrapping_add(1);
            ok_state &= same_pkt(p, &q, 2);
            ok_ctl &= cnt == 1 && cst == 2;
            if !by_time {
                ok_thresh &= largest.is_some() && found && li_acked;
            }
            ok_pending &= largest.is_some() && q.pn < l;
        } else {
            ok_state &= same_pkt(p, &q, q.st);
            ok_ctl &= cnt == 0;
            if q.st == 0 {
                let t = q.t + loss_delay;
                exp_loss_time = match exp_loss_time { Some(e) if e <= t => Some(e), _ => Some(t) };
            }
        }
        i = i.wrapping_add(1);
    }
    let mut n_out = 0usize;
    let mut sorted = true;
    let mut prev: Option<u64> = None;
    let mut ended = false;
    let mut i = 0usize;
    while i < MAXN {
        match out[i] {
            Some(x) => {
                n_out = n_out.wrapping_add(1);
                if let Some(y) = prev { sorted &= y < x; }
                sorted &= !ended;
                prev = Some(x);
            }
            None => ended = true,
        }
        i = i.wrapping_add(1);
    }
    let run3 = (lost[0] && lost[1] && lost[2]) || (lost[1] && lost[2] && lost[3]);

    assert!(ok_state && space.sent_packets.len() == N,
        "a lost packet becomes Retransmitted, every other packet (in particular an Acked one) is untouched; nothing is added or removed");
    assert!(ok_out && n_out == n_lost && sorted && exhausted,
        "the returned packet numbers are exactly the lost ones, ascending, each once");
    assert!(ok_ctl && chk.in_order && chk.unknown == 0 && chk.other == 0 && chk.removed_calls == 0
        && chk.lost_calls == (n_lost > 0) as u8 && (n_lost == 0 || chk.persistent == run3),
        "on_packets_lost is called once iff something was lost, with exactly the lost packets; persistent flag iff three consecutive tracked packets were lost");
    assert!(ok_thresh, "packet-threshold loss: the largest acknowledged packet is tracked, Acked, and at least `threshold` packets newer");
    assert!(space.loss_time == exp_loss_time && space.largest_acked_packet == largest,
        "loss_time = earliest (time_sent + loss_delay) over the packets still in flight");
    if pending_clause {
        assert!(ok_pending, "a packet is declared lost only when a later packet has been acknowledged");
    }
    kani::cover!(n_lost > 0, "some packet lost");
    kani::cover!(n_lost == 0 && exp_loss_time.is_some(), "in-flight packet not yet lost");
    kani::cover!(N < 2 || (li >= thr && lost[0] && !(pre[0].t < threshold_time)), "lost by packet threshold only (N >= 2)");
    kani::cover!(N < 2 || (li >= 1 && thr > li && pre[0].st == 0 && !lost[0]), "below the packet threshold and young: not lost (N >= 2)");
    kani::cover!(N < 3 || run3, "three consecutive losses (N >= 3)");
    core::mem::forget(space);
}

macro_rules! detect_harness {
    ($name:ident, $n:expr, $pending:expr) => {
        #[kani::proof]
        #[kani::unwind(6)]
        #[kani::stub(tokio::time::Instant::now, sym_now)]
        #[kani::stub(is_symbolic_run, stub_yes)]
        fn $name() {
            detect_step::<$n>($pending);
        }
    };
}
detect_harness!(c13_detect_lost_n1, 1, false);
detect_harness!(c13_detect_lost_n2, 2, false);
// measured: N = 3 and N = 4 do not finish in 400 s (not registered, instances removed)

// SUSPECTED DEFECT (tier "pending"): RFC 9002 section 6.1 / A.10 only consider packets sent before an
// acknowledged packet (`if unacked.packet_number > largest_acked: continue`); here the time
// threshold is applied to every in-flight packet, and `on_packet_sent` arms `loss_time` for every
// in-flight packet, so a packet is declared lost (and the window reduced) after
// loss_delay + max_ack_delay without any acknowledgement at all.
detect_harness!(c13_pending_lost_needs_later_ack, 1, true);

// ---------------------------------------------------------------------------------------------
// on_ack_rcvd

/// Invariant I on a post-state.
fn inv_holds(space: &PacketSpace) -> bool {
    let mut ok = true;
    let mut prev: Option<u64> = None;
    let mut present = false;
    let mut all_above = true;
    let n = space.sent_packets.len();
    let mut i = 0usize;
    while i < MAXN {
        if i < n {
            let p = &space.sent_packets[i];
            if let Some(q) = prev { ok &= q < p.packet_number; }
            prev = Some(p.packet_number);
            match space.largest_acked_packet {
                None => ok &= p.state != State::Acked,
                Some(l) => {
                    if p.packet_number == l { ok &= p.state == State::Acked; present = true; }
                    if p.packet_number > l { ok &= p.state != State::Acked; } else { all_above = false; }
                }
            }
        }
        i = i.wrapping_add(1);
    }
    ok && (present || all_above)
}

/// One ACK frame with one or two ranges (well-formed: C04 covers the ill-formed ones) applied to
/// a space with N tracked packets, the way CongestionController::on_ack_rcvd does it.
/// The frame is CONCRETE per instance (largest = 8 and a shape first_range / gap / range), the
/// tracked packet numbers are symbolic in [0, 12): with symbolic range bounds the three nested
/// loops of on_ack_rcvd (ranges x numbers in a range x index walk) do not finish even for one
/// tracked packet (403 s for N = 1, > 600 s for N = 2); the code only compares packet numbers, so
/// all relative placements of <= N packets against the ranges are still covered.
fn ack_step<const N: usize>(fr: u64, second: Option<(u64, u64)>) {
    let now = h_start();
    let mad = any_dur(17);
    let base = 0u64;
    let (mut space, pre, pns) = any_space::<N>(now, mad, base, 12);
    let pre_largest = space.largest_acked_packet;
    let pre_loss_time = space.loss_time;

    let largest: u64 = 8;
    let has2 = second.is_some();
    let (gap, r2) = match second { Some(x) => x, None => (0, 0) };
    let lo1 = largest - fr;
    let hi2 = if has2 { lo1 - gap - 2 } else { 0 };
    let lo2 = if has2 { hi2 - r2 } else { 0 };
    // the peer can only acknowledge packets that were sent (enforced by the sent journal, C10):
    // the largest acknowledged number is a tracked packet or older than everything tracked
    let mut is_tracked = false;
    let mut i = 0usize;
    while i < N {
        if pre[i].pn == largest { is_tracked = true; }
        i = i.wrapping_add(1);
    }
    kani::assume(is_tracked || N == 0 || largest < pre[0].pn);
    let v = |x: u64| qbase::varint::VarInt::from_u64(x).unwrap();
    let ranges: Vec<(qbase::varint::VarInt, qbase::varint::VarInt)> = if has2 { std::vec![(v(gap), v(r2))] } else { Vec::new() };
    let frame = AckFrame::new(v(largest), v(0), v(fr), ranges, None);
    let (mut algo, cp) = boxed(Chk::new(pns));

    space.update_largest_acked_packet(largest);
    let ret = space.on_ack_rcvd(&frame, &mut algo);
    let chk: &Chk = unsafe { &*cp };

    // ---- oracle -----------------------------------------------------------------------------
    let mut ok_ctl = true;
    let mut newly_any = false;
    let mut newly_ae = false;
    let mut newly_top: Option<(u64, Instant)> = None;
    let mut st2 = [9u8; MAXN];
    let mut i = 0usize;
    while i < N {
        let q = pre[i];
        let in_frame = (q.pn >= lo1 && q.pn <= largest) || (has2 && q.pn >= lo2 && q.pn <= hi2);
        let newly = in_frame && q.st != 1;
        st2[i] = if newly { 1 } else { q.st };
        ok_ctl &= chk.acked[i] == newly as u8 && (!newly || chk.acked_st[i] == q.st);
        if newly {
            newly_any = true;
            newly_ae |= q.ae;
            newly_top = Some((q.pn, q.t)); // ascending walk: the last one is the largest
        }
        i = i.wrapping_add(1);
    }
    // front trimming: maximal prefix of Acked / Retransmitted packets
    let mut k = 0usize;
    let mut stop = false;
    let mut i = 0usize;
    while i < N {
        if !stop && st2[i] != 0 { k = k.wrapping_add(1); } else { stop = true; }
        i = i.wrapping_add(1);
    }
    let mut ok_rest = space.sent_packets.len() == N.wrapping_sub(k);
    let mut i = 0usize;
    while i < N {
        if i >= k {
            ok_rest &= same_pkt(&space.sent_packets[i.wrapping_sub(k)], &pre[i], st2[i]);
        }
        i = i.wrapping_add(1);
    }
    assert!(ok_ctl && chk.unknown == 0 && chk.other == 0 && chk.lost_calls == 0 && chk.removed_calls == 0,
        "exactly the tracked, not yet Acked packets whose numbers are in the frame are reported acknowledged, once each, in their pre-state");
    assert!(ok_rest, "they become Acked; only a prefix of Acked/Retransmitted packets is trimmed; everything else is preserved in order");
    match ret {
        None => assert!(!newly_any, "None only if nothing was newly acknowledged"),
        Some(r) => assert!(newly_any && r.include_ack_eliciting == newly_ae && Some(r.largest) == newly_top,
            "reports the largest newly acknowledged packet with its send time, and whether any was ack-eliciting"),
    }
    let exp_largest = match pre_largest { Some(l) if l >= largest => l, _ => largest };
    assert!(space.largest_acked_packet == Some(exp_largest) && space.loss_time == pre_loss_time && inv_holds(&space),
        "largest acknowledged = max(previous, frame); invariant I re-established");
    kani::cover!(N < 2 || (newly_any && k == 0), "newly acked, nothing trimmed (N >= 2: an older packet is still in flight)");
    kani::cover!(N != 1 || (newly_any && k == 1), "newly acked and trimmed (N = 1)");
    kani::cover!(N < 2 || (newly_any && k > 0 && k < N), "partial trim (N >= 2)");
    kani::cover!(N < 2 || !has2 || (chk.acked[0] == 1 && chk.acked[N - 1] == 1), "both ranges hit (N >= 2, two ranges)");
    kani::cover!(N < 1 || (!newly_any && is_tracked), "duplicate ACK");
    core::mem::forget(frame);
    core::mem::forget(space);
}

macro_rules! ack_harness {
    ($name:ident, $n:expr, $fr:expr, $second:expr) => {
        #[kani::proof]
        #[kani::unwind(6)]
        #[kani::stub(tokio::time::Instant::now, sym_now)]
        #[kani::stub(is_symbolic_run, stub_yes)]
        fn $name() {
            ack_step::<$n>($fr, $second);
        }
    };
}
// frame shapes: a = [8], b = [6..=8], c = [7..=8] [4..=5] (gap 0), d = [8] [3..=5] (gap 1)
// measured: two-range frames with N >= 2 (n2_c, n2_d, n3_c, n3_d, n4_c) exceed the 10 GB memory limit (instances removed)
ack_harness!(c13_on_ack_n0_b, 0, 2, None);
ack_harness!(c13_on_ack_n1_a, 1, 0, None);
ack_harness!(c13_on_ack_n1_c, 1, 1, Some((0, 1)));
ack_harness!(c13_on_ack_n2_b, 2, 2, None);

// ---------------------------------------------------------------------------------------------
// discard (packet-number space abandoned) and no_ack_eliciting_in_flight

fn discard_step<const N: usize>() {
    let now = h_start();
    let mad = any_dur(17);
    let base = any_base();
    let (mut space, pre, pns) = any_space::<N>(now, mad, base, 16);
    let largest = space.largest_acked_packet;
    let (mut algo, cp) = boxed(Chk::new(pns));
    let quiet = space.no_ack_eliciting_in_flight();
    space.discard(&mut algo);
    let chk: &Chk = unsafe { &*cp };
    let mut ok = true;
    let mut exp_quiet = true;
    let mut n_inflight = 0usize;
    let mut i = 0usize;
    while i < N {
        let q = pre[i];
        let inflight = q.st == 0;
        if inflight { n_inflight = n_inflight.wrapping_add(1); }
        if inflight && q.ae { exp_quiet = false; }
        ok &= chk.removed[i] == inflight as u8 && (!inflight || chk.removed_st[i] == 0);
        i = i.wrapping_add(1);
    }
    assert!(quiet == exp_quiet, "no_ack_eliciting_in_flight <=> no tracked packet is both ack-eliciting and still in flight");
    assert!(ok && chk.removed_calls == 1 && chk.unknown == 0 && chk.other == 0 && chk.lost_calls == 0,
        "exactly the packets still in flight are removed from bytes_in_flight, once each (acknowledged / lost ones were accounted before)");
    assert!(space.sent_packets.is_empty() && space.loss_time.is_none() && space.time_of_last_ack_eliciting_packet.is_none() && space.largest_acked_packet == largest,
        "the space forgets its packets and its timers");
    kani::cover!(n_inflight == 1 && N == 2, "one of two packets still in flight");
    core::mem::forget(space);
}

#[kani::proof]
#[kani::unwind(6)]
#[kani::stub(tokio::time::Instant::now, sym_now)]
#[kani::stub(is_symbolic_run, stub_yes)]
fn c13_discard_n2() {
    discard_step::<2>();
}
