// Container models private to the C13 overlay (textually included by c13_packets.rs, so the
// types live in qcongestion::packets::verif_c13_packets). Under cfg(kani) only, the overlay rewrites
// the import block of qcongestion/src/packets.rs so that inside that file
//     VecDeque  ->  KDeque      (PacketSpace::sent_packets)
//     Vec       ->  KVec        (the three temporaries of detect_lost_packets)
// This is the cut of DESIGN.md section 2.4 (sequence semantics of the std containers are trusted
// and cross-checked by the c13_kmodel_vs_std_* harnesses), specialised for this file because
// detect_lost_packets drives `iter_mut().enumerate().filter().map().filter_map().collect()` by
// *external* iteration: the number of elements consumed per `next()` is data dependent, so the
// iterator position is symbolic from the second call on.
//   * std Vec (amortised growth): 210 000 symex steps / 10 M clauses for ONE tracked packet.
//   * verif_model::VecDeque::iter_mut wraps core::slice::IterMut; with a symbolic position every
//     element access becomes a dereference at a symbolic byte offset into the backing array
//     (measured: 690 s for one tracked packet).
//   * here every element access is a guarded access to a cell with a *concrete* index, iterator
//     state is canonical (an exhausted iterator does not move), all loops have the constant trip
//     count KCAP.
// Capacity is KCAP; exceeding it is a failed check (assert), never a silent truncation.

pub(crate) const KCAP: usize = 4;

#[inline(always)]
fn kput<T>(slot: &mut Option<T>, v: Option<T>) {
    let old = core::mem::replace(slot, v);
    assert!(old.is_none(), "container model: overwriting a live element");
    core::mem::forget(old);
}

// ------------------------------------------------------------------------------------------ KVec

pub(crate) struct KVec<T> {
    items: [Option<T>; KCAP],
    len: usize,
}

impl<T> KVec<T> {
    pub(crate) fn new() -> Self {
        KVec { items: core::array::from_fn(|_| None), len: 0 }
    }
    pub(crate) fn len(&self) -> usize {
        self.len
    }
    pub(crate) fn is_empty(&self) -> bool {
        self.len == 0
    }
    pub(crate) fn push(&mut self, v: T) {
        assert!(self.len < KCAP, "KVec model capacity exceeded");
        let at = self.len;
        let mut v = Some(v);
        let mut i = 0usize;
        while i < KCAP {
            if i == at {
                kput(&mut self.items[i], v.take());
            }
            i = i.wrapping_add(1);
        }
        core::mem::forget(v);
        self.len = self.len.wrapping_add(1);
    }
    pub(crate) fn iter(&self) -> KIter<'_, T> {
        KIter { items: &self.items, pos: 0, end: self.len }
    }
}

impl<T> Default for KVec<T> {
    fn default() -> Self {
        Self::new()
    }
}

impl<T> FromIterator<T> for KVec<T> {
    fn from_iter<I: IntoIterator<Item = T>>(iter: I) -> Self {
        let mut v = KVec::new();
        v.extend(iter);
        v
    }
}

impl<T> Extend<T> for KVec<T> {
    fn extend<I: IntoIterator<Item = T>>(&mut self, iter: I) {
        let mut it = iter.into_iter();
        // constant trip count KCAP + 1: the last `next` shows the source is exhausted
        // (a longer source trips the capacity assertion in `push`)
        let mut i = 0usize;
        while i <= KCAP {
            match it.next() {
                Some(x) => self.push(x),
                None => break,
            }
            i = i.wrapping_add(1);
        }
    }
}

/// Shared-reference iterator over `items[pos..end]` (used by KVec and KDeque).
pub(crate) struct KIter<'a, T> {
    items: &'a [Option<T>; KCAP],
    pos: usize,
    end: usize,
}

impl<'a, T> Iterator for KIter<'a, T> {
    type Item = &'a T;
    fn next(&mut self) -> Option<&'a T> {
        if self.pos >= self.end {
            return None;
        }
        let p = self.pos;
        self.pos = self.pos.wrapping_add(1);
        let mut out = None;
        let mut i = 0usize;
        while i < KCAP {
            if i == p {
                out = self.items[i].as_ref();
            }
            i = i.wrapping_add(1);
        }
        out
    }
}

pub(crate) struct KIntoIter<T> {
    items: [Option<T>; KCAP],
    pos: usize,
    end: usize,
}

impl<T> Iterator for KIntoIter<T> {
    type Item = T;
    fn next(&mut self) -> Option<T> {
        if self.pos >= self.end {
            return None;
        }
        let p = self.pos;
        self.pos = self.pos.wrapping_add(1);
        let mut out = None;
        let mut i = 0usize;
        while i < KCAP {
            if i == p {
                out = self.items[i].take();
            }
            i = i.wrapping_add(1);
        }
        out
    }
}

impl<T> IntoIterator for KVec<T> {
    type Item = T;
    type IntoIter = KIntoIter<T>;
    fn into_iter(self) -> KIntoIter<T> {
        KIntoIter { items: self.items, pos: 0, end: self.len }
    }
}

impl<'a, T> IntoIterator for &'a KVec<T> {
    type Item = &'a T;
    type IntoIter = KIter<'a, T>;
    fn into_iter(self) -> KIter<'a, T> {
        self.iter()
    }
}

// ---------------------------------------------------------------------------------------- KDeque

/// Sequence model of VecDeque: `items[0..len]` are `Some`, the rest `None`.
pub(crate) struct KDeque<T> {
    items: [Option<T>; KCAP],
    len: usize,
}

impl<T> KDeque<T> {
    pub(crate) fn new() -> Self {
        KDeque { items: core::array::from_fn(|_| None), len: 0 }
    }
    pub(crate) fn with_capacity(_c: usize) -> Self {
        Self::new()
    }
    pub(crate) fn len(&self) -> usize {
        self.len
    }
    pub(crate) fn is_empty(&self) -> bool {
        self.len == 0
    }
    pub(crate) fn clear(&mut self) {
        let mut i = 0usize;
        while i < KCAP {
            self.items[i] = None;
            i = i.wrapping_add(1);
        }
        self.len = 0;
    }
    pub(crate) fn push_back(&mut self, v: T) {
        assert!(self.len < KCAP, "KDeque model capacity exceeded");
        let at = self.len;
        let mut v = Some(v);
        let mut i = 0usize;
        while i < KCAP {
            if i == at {
                kput(&mut self.items[i], v.take());
            }
            i = i.wrapping_add(1);
        }
        core::mem::forget(v);
        self.len = self.len.wrapping_add(1);
    }
    pub(crate) fn pop_front(&mut self) -> Option<T> {
        if self.len == 0 {
            return None;
        }
        // shift left by one: walk from the back, carrying the content of the cell to the right
        let mut carry: Option<T> = None;
        let mut i = KCAP;
        while i > 0 {
            i = i.wrapping_sub(1);
            carry = core::mem::replace(&mut self.items[i], carry);
        }
        self.len = self.len.wrapping_sub(1);
        carry
    }
    pub(crate) fn front(&self) -> Option<&T> {
        if self.len == 0 { None } else { self.items[0].as_ref() }
    }
    pub(crate) fn get(&self, idx: usize) -> Option<&T> {
        if idx >= self.len {
            return None;
        }
        let mut out = None;
        let mut i = 0usize;
        while i < KCAP {
            if i == idx {
                out = self.items[i].as_ref();
            }
            i = i.wrapping_add(1);
        }
        out
    }
    pub(crate) fn get_mut(&mut self, idx: usize) -> Option<&mut T> {
        if idx >= self.len {
            return None;
        }
        let mut out: Option<&mut T> = None;
        let mut i = 0usize;
        for slot in self.items.iter_mut() {
            if i == idx {
                out = slot.as_mut();
            }
            i = i.wrapping_add(1);
        }
        out
    }
    pub(crate) fn iter(&self) -> KIter<'_, T> {
        KIter { items: &self.items, pos: 0, end: self.len }
    }
    pub(crate) fn iter_mut(&mut self) -> KIterMut<'_, T> {
        let end = self.len;
        let mut it = self.items.iter_mut();
        let cells: [Option<&mut T>; KCAP] = core::array::from_fn(|_| it.next().unwrap().as_mut());
        KIterMut { cells, pos: 0, end }
    }
    /// Same contract as std: the sequence must be sorted w.r.t. `f`; with at most one `Equal`
    /// element the result equals std's (position of the match, or first non-`Less` position).
    pub(crate) fn binary_search_by<F: FnMut(&T) -> core::cmp::Ordering>(&self, mut f: F) -> Result<usize, usize> {
        let mut res: Option<Result<usize, usize>> = None;
        let mut i = 0usize;
        while i < KCAP {
            if res.is_none() && i < self.len {
                if let Some(x) = self.items[i].as_ref() {
                    match f(x) {
                        core::cmp::Ordering::Less => {}
                        core::cmp::Ordering::Equal => res = Some(Ok(i)),
                        core::cmp::Ordering::Greater => res = Some(Err(i)),
                    }
                }
            }
            i = i.wrapping_add(1);
        }
        match res {
            Some(r) => r,
            None => Err(self.len),
        }
    }
}

impl<T> core::ops::Index<usize> for KDeque<T> {
    type Output = T;
    fn index(&self, idx: usize) -> &T {
        self.get(idx).expect("Out of bounds access")
    }
}

impl<T> core::ops::IndexMut<usize> for KDeque<T> {
    fn index_mut(&mut self, idx: usize) -> &mut T {
        self.get_mut(idx).expect("Out of bounds access")
    }
}

/// Exclusive-reference iterator: one pre-split `&mut` per cell, handed out by concrete index.
pub(crate) struct KIterMut<'a, T> {
    cells: [Option<&'a mut T>; KCAP],
    pos: usize,
    end: usize,
}

impl<'a, T> Iterator for KIterMut<'a, T> {
    type Item = &'a mut T;
    fn next(&mut self) -> Option<&'a mut T> {
        if self.pos >= self.end {
            return None; // canonical: an exhausted iterator does not move
        }
        let p = self.pos;
        self.pos = self.pos.wrapping_add(1);
        let mut out = None;
        let mut i = 0usize;
        for cell in self.cells.iter_mut() {
            if i == p {
                out = cell.take();
            }
            i = i.wrapping_add(1);
        }
        out
    }
}
