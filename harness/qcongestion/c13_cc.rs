// Kani harnesses compiled inside qcongestion::congestion (overlay, cfg(kani) only).
// Property C13, controller level: the send quota against the congestion window (suspected defect,
// tier "pending" + passing twin).
//
// The controller is built through the real `ArcCC::new` (NewReno, mtu 1200: cwnd = 12000, initial
// smoothed RTT 33 ms, rttvar 16.5 ms, pacer bucket 12000 bytes). The virtual clock starts at a CONCRETE
// instant in these harnesses: the pacer converts elapsed time and cwnd/srtt to f64, which CBMC
// constant-folds only when the operands are concrete (DESIGN.md section 4 C13 `quota_vs_window`).
use std::sync::atomic::AtomicU16;

use super::*;
use crate::{HandshakeStatus, Transport};

include!("c13_common.rs");

struct NoFeedback;

impl Feedback for NoFeedback {
    fn may_loss(&self, _trigger: PacketLostTrigger, pns: &mut dyn Iterator<Item = u64>) {
        for _pn in pns {}
    }
}

/// std::sync::Mutex::lock without the futex slow path (NOTES-tracing.md): single-threaded harness,
/// a lock that is not immediately available is a self-deadlock of the real code and is reported.
fn stub_lock<T: ?Sized>(m: &Mutex<T>) -> std::sync::LockResult<std::sync::MutexGuard<'_, T>> {
    match m.try_lock() {
        Ok(g) => Ok(g),
        Err(_) => panic!("mutex poisoned or already held in a single-threaded harness: self-deadlock"),
    }
}

/// Stub for `std::hash::RandomState::new` (DESIGN.md section 2.3): RecoveryMetricsUpdated's
/// `custom_fields: HashMap` is default-constructed on some paths; the map stays empty.
fn fixed_random_state() -> std::hash::RandomState {
    unsafe { core::mem::transmute::<[u64; 2], std::hash::RandomState>([0, 0]) }
}

// tracing::{trace,...}! reachable (Rtt::try_backoff_rtt) => kani-compiler ICE; NOTES-tracing.md stub set
fn stub_tr_interest(_c: &'static tracing::callsite::DefaultCallsite) -> tracing::subscriber::Interest {
    tracing::subscriber::Interest::never()
}
fn stub_tr_enabled(_m: &tracing::Metadata<'static>, _i: tracing::subscriber::Interest) -> bool {
    false
}
fn stub_tr_dispatch<'a: 'a>(_m: &'static tracing::Metadata<'static>, _f: &'a tracing::field::ValueSet<'_>) {}

/// Error/diagnostic texts are irrelevant (DESIGN.md section 2.3 `no_fmt`).
fn stub_fmt_write(_o: &mut dyn core::fmt::Write, _a: core::fmt::Arguments<'_>) -> core::fmt::Result {
    Ok(())
}

/// Virtual clock with a concrete start (natively: the real clock).
fn h_start_concrete() -> Instant {
    let t = if is_symbolic_run() {
        let zero: std::time::Instant = unsafe { core::mem::zeroed() };
        Instant::from_std(zero) + Duration::new(5_000, 0)
    } else {
        Instant::now()
    };
    unsafe {
        CLOCK = Some(t);
    }
    t
}

fn new_cc(is_server: bool) -> (ArcCC, Arc<HandshakeStatus>) {
    let hs = Arc::new(HandshakeStatus::new(is_server));
    let status = PathStatus::new(hs.clone(), Arc::new(AtomicU16::new(1200)));
    let fb: Arc<dyn Feedback> = Arc::new(NoFeedback);
    let cc = ArcCC::new(
        Algorithm::NewReno,
        Duration::from_millis(25),
        [fb.clone(), fb.clone(), fb],
        status,
        ArcSendWaker::new(),
    );
    (cc, hs)
}

const CWND0: usize = 12_000;

/// Scenario: `bif` bytes are in flight, none acknowledged (bytes_in_flight == bif), and the pacer's
/// bucket is full -- the state 26.4 ms after any burst (the bucket of 12000 bytes refills at
/// 1.25 cwnd / srtt = 454545 B/s), i.e. BEFORE the first acknowledgement can arrive (srtt 33 ms).
/// The path asks for its send quota (Transport::send_quota, called by qconnection's burst loop
/// before every packet). bytes_in_flight is set through the algorithm's own accounting entry point.
fn quota_step(window_clause: bool) {
    let now = h_start_concrete();
    let (cc, _hs) = new_cc(kani::any());
    let bif: usize = kani::any();
    kani::assume(bif <= 1 << 40);
    {
        // bytes_in_flight := bif through NewReno's own accounting entry point, called on the concrete
        // type: `Control::on_packet_sent_cc` and `Control::on_packet_acked` have the same signature and
        // CBMC walks every type-compatible function at a `dyn Control` call site (measured: symbolic
        // execution of this harness does not finish when the call goes through the Box<dyn Control>)
        let mut reno = NewReno::new(Arc::new(AtomicU16::new(1200)));
        <NewReno as Control>::on_packet_sent_cc(&mut reno, &SentPacket::new(0, now, true, true, bif));
        let mut g = cc.0.lock().unwrap();
        assert!(g.algorithm.congestion_window() == CWND0);
        let fresh: Box<dyn Control> = Box::new(reno);
        core::mem::forget(core::mem::replace(&mut g.algorithm, fresh));
    }
    let q = cc.send_quota();
    let cwnd = cc.0.lock().unwrap().algorithm.congestion_window();
    assert!(cwnd == CWND0, "no acknowledgement, no loss: the window is unchanged");
    if window_clause {
        // C13: "the sender does not keep adding in-flight bytes beyond the window"
        match q {
            Ok(n) => assert!(bif + n <= cwnd, "quota <= congestion window - bytes in flight"),
            Err(s) => assert!(s == Signals::CONGESTION),
        }
    } else {
        // what the code computes: the token bucket only, capped at the bucket capacity
        // max(cwnd * 10ms / srtt, 10 mtu) = 12000
        assert!(matches!(q, Ok(12_000)), "quota = min(tokens + rate * elapsed, capacity), whatever is in flight");
    }
    kani::cover!(bif >= CWND0, "a full window (or more) already in flight");
    kani::cover!(bif == 0, "nothing in flight");
    core::mem::forget(cc);
}

#[kani::proof]
#[kani::unwind(6)]
#[kani::stub(tokio::time::Instant::now, sym_now)]
#[kani::stub(is_symbolic_run, stub_yes)]
#[kani::stub(std::sync::Mutex::lock, stub_lock)]
#[kani::stub(std::hash::RandomState::new, fixed_random_state)]
#[kani::stub(qevent::telemetry::macro_support::build_and_emit_event, no_emit)]
#[kani::stub(tracing::callsite::DefaultCallsite::interest, stub_tr_interest)]
#[kani::stub(tracing::__macro_support::__is_enabled, stub_tr_enabled)]
#[kani::stub(tracing::Event::dispatch, stub_tr_dispatch)]
#[kani::stub(core::fmt::write, stub_fmt_write)]
fn c13_cc_quota_is_pacer_only() {
    quota_step(false);
}

// SUSPECTED DEFECT (tier "pending"): CongestionController::send_quota returns the pacer's tokens;
// bytes_in_flight is never compared with the congestion window anywhere in qcongestion or in
// qconnection's burst loop, so with acknowledgements withheld the sender adds a full bucket
// (>= 10 datagrams) per 26 ms on top of a window that is already full.
#[kani::proof]
#[kani::unwind(6)]
#[kani::stub(tokio::time::Instant::now, sym_now)]
#[kani::stub(is_symbolic_run, stub_yes)]
#[kani::stub(std::sync::Mutex::lock, stub_lock)]
#[kani::stub(std::hash::RandomState::new, fixed_random_state)]
#[kani::stub(qevent::telemetry::macro_support::build_and_emit_event, no_emit)]
#[kani::stub(tracing::callsite::DefaultCallsite::interest, stub_tr_interest)]
#[kani::stub(tracing::__macro_support::__is_enabled, stub_tr_enabled)]
#[kani::stub(tracing::Event::dispatch, stub_tr_dispatch)]
#[kani::stub(core::fmt::write, stub_fmt_write)]
fn c13_pending_quota_respects_window() {
    quota_step(true);
}

// NOT REGISTERED / removed: a one-step harness of `Transport::do_tick` -> `on_loss_detection_timeout`
// (pto_count + 1, one probe requested, TooManyPtos after more than six expiries, timer re-armed) on
// a controller without packets: symbolic execution walks detect_lost_packets and the per-space
// iterator chains for every space (931 k SSA steps, 266 s) and the SAT query does not finish in 500 s.

/// The packet-reordering threshold the controller hands to detect_lost_packets (whose harnesses
/// take the threshold as a parameter) and the abandon limit are the RFC 9002 values.
#[kani::proof]
fn c13_cc_constants() {
    assert!(PACKET_THRESHOLD == 3, "kPacketThreshold = 3 (RFC 9002 6.1.1)");
    assert!(INIT_CWND == 10 * MSS && MSS == 1200);
    kani::cover!(true, "reached");
}
