// Kani harnesses compiled inside qcongestion::algorithm::new_reno (overlay, cfg(kani) only).
// Property C13, congestion-control clauses: one step of every NewReno operation from an arbitrary
// valid state (cwnd >= 2 * max_datagram_size, bytes_in_flight covers the packets handed in),
// with exact post-state oracles taken from RFC 9002 appendix B as specialised by this code base
// (loss reduction = one datagram, "persistent" reduction = halving).
use super::*;
use crate::packets::PacketSpace;
use qbase::{frame::EcnCounts, varint::VarInt};

include!("c13_common.rs");

const MAX_PKT: usize = 65_535; // a packet never exceeds one UDP datagram
const MAX_CWND: usize = 1 << 62;

#[derive(Clone, Copy)]
struct Snap {
    mds: usize,
    bif: usize,
    cwnd: usize,
    ssthresh: usize,
    rec: Option<Instant>,
    ce: [u64; 3],
}

fn snap(r: &NewReno) -> Snap {
    Snap {
        mds: r.max_datagram_size(),
        bif: r.bytes_in_flight,
        cwnd: r.congestion_window,
        ssthresh: r.ssthresh,
        rec: r.congestion_recovery_start_time,
        ce: r.ecn_ce_counters,
    }
}

/// Arbitrary valid controller state at virtual time `now`.
fn any_reno(now: Instant) -> NewReno {
    let mds: u16 = kani::any();
    kani::assume(mds >= 1200);
    let cwnd: usize = kani::any();
    kani::assume(cwnd >= 2 * mds as usize && cwnd <= MAX_CWND);
    let bif: usize = kani::any();
    kani::assume(bif <= MAX_CWND);
    let rec = if kani::any() { Some(any_instant_before(now)) } else { None };
    NewReno {
        max_datagram_size: Arc::new(AtomicU16::new(mds)),
        ecn_ce_counters: [kani::any(), kani::any(), kani::any()],
        bytes_in_flight: bif,
        congestion_window: cwnd,
        congestion_recovery_start_time: rec,
        ssthresh: kani::any(),
    }
}

fn any_state() -> State {
    let s: u8 = kani::any();
    kani::assume(s < 3);
    match s {
        0 => State::Inflight,
        1 => State::Acked,
        _ => State::Retransmitted,
    }
}

fn any_pkt(now: Instant) -> SentPacket {
    let sent_bytes: usize = kani::any();
    kani::assume(sent_bytes <= MAX_PKT);
    SentPacket {
        packet_number: kani::any(),
        time_sent: any_instant_before(now),
        ack_eliciting: kani::any(),
        sent_bytes,
        state: any_state(),
        count_for_cc: kani::any(),
    }
}

fn in_rec(s: &Snap, t: Instant) -> bool {
    match s.rec {
        Some(r) => t <= r,
        None => false,
    }
}

/// (element-wise: `[u64; 3] == [u64; 3]` compiles to a 24-iteration memcmp loop)
fn same_ce(a: &Snap, r: &NewReno) -> bool {
    r.ecn_ce_counters[0] == a.ce[0] && r.ecn_ce_counters[1] == a.ce[1] && r.ecn_ce_counters[2] == a.ce[2]
}

fn same_except_bif(a: &Snap, r: &NewReno) -> bool {
    r.congestion_window == a.cwnd
        && r.ssthresh == a.ssthresh
        && r.congestion_recovery_start_time == a.rec
        && same_ce(a, r)
        && r.max_datagram_size() == a.mds
}

/// Expected effect of a *new* congestion event (not in recovery) at time `now`.
fn expect_event(pre: &Snap, r: &NewReno, now: Instant) {
    assert!(r.congestion_recovery_start_time == Some(now), "recovery period starts now");
    assert!(r.ssthresh == pre.cwnd - pre.mds, "ssthresh = cwnd - one datagram");
    let exp = if pre.cwnd - pre.mds > 2 * pre.mds { pre.cwnd - pre.mds } else { 2 * pre.mds };
    assert!(r.congestion_window == exp, "cwnd = max(ssthresh, 2 datagrams)");
    assert!(r.congestion_window <= pre.cwnd, "a congestion event never grows the window");
}

// ---------------------------------------------------------------------------------------------

/// B.3 initial window: min(10 mtu, max(2 mtu, 14600)) and never below two datagrams.
#[kani::proof]
fn c13_reno_new() {
    let mtu: u16 = kani::any();
    // `mtu * 10` is u16 arithmetic in NewReno::new: larger values overflow (the path MTU is fixed
    // at 1200 in this code base, see qconnection/src/path.rs)
    kani::assume(mtu >= 1200 && mtu <= 6553);
    let r = NewReno::new(Arc::new(AtomicU16::new(mtu)));
    let m = mtu as usize;
    let exp = core::cmp::min(10 * m, core::cmp::max(2 * m, 14600));
    assert!(r.congestion_window == exp);
    assert!(r.congestion_window >= 2 * m, "initial window >= 2 datagrams");
    assert!(r.bytes_in_flight == 0 && r.ssthresh == usize::MAX && r.congestion_recovery_start_time.is_none());
    kani::cover!(exp == 14600, "14600 branch");
    kani::cover!(exp == 10 * m, "10 mtu branch");
    core::mem::forget(r);
}

#[kani::proof]
#[kani::stub(tokio::time::Instant::now, sym_now)]
#[kani::stub(is_symbolic_run, stub_yes)]
#[kani::stub(qevent::telemetry::macro_support::build_and_emit_event, no_emit)]
fn c13_reno_sent() {
    let now = h_start();
    let mut r = any_reno(now);
    let pre = snap(&r);
    let n: usize = kani::any();
    kani::assume(n <= MAX_PKT);
    r.on_packet_sent_cc(n);
    assert!(r.bytes_in_flight == pre.bif + n, "bytes_in_flight grows by exactly the packet size");
    assert!(same_except_bif(&pre, &r), "sending changes nothing but bytes_in_flight");
    kani::cover!(n > 0);
    core::mem::forget(r);
}

/// B.5 OnPacketAcked.
#[kani::proof]
#[kani::stub(tokio::time::Instant::now, sym_now)]
#[kani::stub(is_symbolic_run, stub_yes)]
#[kani::stub(qevent::telemetry::macro_support::build_and_emit_event, no_emit)]
fn c13_reno_acked() {
    let now = h_start();
    let mut r = any_reno(now);
    let p = any_pkt(now);
    kani::assume(p.state != State::Acked); // PacketSpace::on_ack_rcvd reports a packet once, before marking it
    // in-flight accounting invariant: an outstanding counted packet is included in bytes_in_flight
    kani::assume(!(p.count_for_cc && p.state == State::Inflight) || r.bytes_in_flight >= p.sent_bytes);
    let pre = snap(&r);
    r.on_packet_acked(&p);

    let counted_out = p.count_for_cc && p.state == State::Inflight;
    assert!(r.bytes_in_flight == if counted_out { pre.bif - p.sent_bytes } else { pre.bif },
        "bytes_in_flight drops by the size of an outstanding counted packet, once");
    let recov = in_rec(&pre, p.time_sent);
    if !p.count_for_cc || recov {
        assert!(r.congestion_window == pre.cwnd, "no growth for uncounted packets or inside recovery");
    } else if pre.cwnd < pre.ssthresh {
        assert!(r.congestion_window == pre.cwnd + p.sent_bytes, "slow start: grow by the acknowledged bytes");
    }
    // congestion-avoidance increment (a 64-bit division): exact value in c13_reno_acked_ca
    assert!(r.congestion_window >= pre.cwnd, "an acknowledgement never shrinks the window");
    assert!(r.congestion_window >= 2 * pre.mds, "cwnd >= 2 datagrams");
    if recov {
        assert!(r.congestion_window == pre.cwnd, "no growth for packets sent before recovery started");
    }
    assert!(r.ssthresh == pre.ssthresh && r.congestion_recovery_start_time == pre.rec && same_ce(&pre, &r));
    kani::cover!(recov && p.count_for_cc, "ack in recovery");
    kani::cover!(!recov && p.count_for_cc && pre.cwnd < pre.ssthresh && p.sent_bytes > 0, "slow start growth");
    kani::cover!(!recov && p.count_for_cc && pre.cwnd >= pre.ssthresh && r.congestion_window > pre.cwnd, "congestion avoidance growth");
    kani::cover!(p.state == State::Retransmitted && p.count_for_cc, "late ack of a packet declared lost");
    core::mem::forget(r);
}

/// B.5, congestion-avoidance branch: cwnd += max_datagram_size * acked_bytes / cwnd, full width.
/// CaDiCaL does not finish on the divider-vs-divider equivalence (> 200 s); z3 (CBMC's SMT2
/// back end) decides it in ~20 s, cvc5 in ~30 s.
#[kani::proof]
#[kani::solver(z3)]
#[kani::stub(tokio::time::Instant::now, sym_now)]
#[kani::stub(is_symbolic_run, stub_yes)]
#[kani::stub(qevent::telemetry::macro_support::build_and_emit_event, no_emit)]
fn c13_reno_acked_ca() {
    let now = h_start();
    let mut r = any_reno(now);
    let p = any_pkt(now);
    kani::assume(p.count_for_cc && p.state != State::Acked);
    kani::assume(r.congestion_window >= r.ssthresh);
    kani::assume(p.state != State::Inflight || r.bytes_in_flight >= p.sent_bytes);
    let pre = snap(&r);
    kani::assume(!in_rec(&pre, p.time_sent));
    r.on_packet_acked(&p);
    assert!(r.congestion_window == pre.cwnd + pre.mds * p.sent_bytes / pre.cwnd, "increment == floor(mds * acked / cwnd)");
    kani::cover!(r.congestion_window > pre.cwnd, "window grew");
    kani::cover!(r.congestion_window == pre.cwnd && p.sent_bytes > 0, "sub-byte growth rounds to zero");
    core::mem::forget(r);
}

/// B.6 OnCongestionEvent, then a second event for any packet sent before the recovery period
/// began (once-per-round-trip clause).
#[kani::proof]
#[kani::stub(tokio::time::Instant::now, sym_now)]
#[kani::stub(is_symbolic_run, stub_yes)]
#[kani::stub(qevent::telemetry::macro_support::build_and_emit_event, no_emit)]
fn c13_reno_congestion_event() {
    let t0 = h_start();
    let mut r = any_reno(t0);
    let sent_time = any_instant_before(t0);
    let pre = snap(&r);
    r.on_congestion_event(&sent_time);
    let recov = in_rec(&pre, sent_time);
    if recov {
        assert!(same_except_bif(&pre, &r), "no reaction inside the recovery period");
    } else {
        expect_event(&pre, &r, t0);
    }
    assert!(r.bytes_in_flight == pre.bif);
    assert!(r.congestion_window >= 2 * pre.mds, "cwnd >= 2 datagrams");
    assert!(same_ce(&pre, &r));
    kani::cover!(recov, "event ignored in recovery");
    kani::cover!(!recov && r.congestion_window == 2 * pre.mds, "clamped at the minimum window");
    kani::cover!(!recov && r.congestion_window > 2 * pre.mds, "reduced above the minimum");

    // later in the same round trip: another loss / CE mark concerning a packet sent no later than
    // the start of the recovery period must not shrink the window again
    let mid = snap(&r);
    assert!(mid.rec.is_some());
    h_advance(any_dur(H_MAX_AGE_S));
    let sent_time2 = any_instant_before(t0);
    kani::assume(sent_time2 <= mid.rec.unwrap());
    r.on_congestion_event(&sent_time2);
    assert!(same_except_bif(&mid, &r), "at most one reduction per round trip");
    core::mem::forget(r);
}

/// B.7 ProcessECN.
#[kani::proof]
#[kani::stub(tokio::time::Instant::now, sym_now)]
#[kani::stub(is_symbolic_run, stub_yes)]
#[kani::stub(qevent::telemetry::macro_support::build_and_emit_event, no_emit)]
fn c13_reno_ecn() {
    let now = h_start();
    let mut r = any_reno(now);
    let sent_time = any_instant_before(now);
    let e: u8 = kani::any();
    kani::assume(e < 3);
    let epoch = Epoch::EPOCHS[e as usize];
    let has_ecn: bool = kani::any();
    let ce: u64 = kani::any();
    kani::assume(ce <= qbase::varint::VARINT_MAX);
    let v = |x: u64| VarInt::from_u64(x).unwrap();
    let ecn = if has_ecn { Some(EcnCounts::new(v(0), v(0), v(ce))) } else { None };
    let ack = AckFrame::new(v(0), v(0), v(0), Vec::new(), ecn);
    let pre = snap(&r);
    r.process_ecn(&ack, &sent_time, epoch);
    let increased = has_ecn && ce > pre.ce[e as usize];
    let recov = in_rec(&pre, sent_time);
    let mut k = 0;
    while k < 3 {
        let exp = if increased && k == e as usize { ce } else { pre.ce[k] };
        assert!(r.ecn_ce_counters[k] == exp, "CE counter of the space records the peer's count, others untouched");
        k += 1;
    }
    if increased && !recov {
        expect_event(&pre, &r, now);
    } else {
        assert!(r.congestion_window == pre.cwnd && r.ssthresh == pre.ssthresh && r.congestion_recovery_start_time == pre.rec,
            "no CE increase, or already in recovery: window untouched");
    }
    assert!(r.bytes_in_flight == pre.bif);
    assert!(r.congestion_window >= 2 * pre.mds);
    kani::cover!(increased && !recov, "CE increase starts recovery");
    kani::cover!(increased && recov, "CE increase inside recovery");
    kani::cover!(has_ecn && !increased, "CE count not increased");
    core::mem::forget(ack);
    core::mem::forget(r);
}

/// B.8 OnPacketsLost over N lost packets (as handed over by PacketSpace::detect_lost_packets:
/// every one was Inflight and has just been marked Retransmitted).
fn lost_step<const N: usize>() {
    let now = h_start();
    let mut r = any_reno(now);
    let pkts: [SentPacket; N] = core::array::from_fn(|_| {
        let mut p = any_pkt(now);
        p.state = State::Retransmitted;
        p
    });
    let persistent: bool = kani::any();
    // in-flight accounting invariant: the lost packets were outstanding, hence counted
    let mut sum = 0usize;
    let mut last: Option<Instant> = None;
    let mut i = 0;
    while i < N {
        if pkts[i].count_for_cc {
            sum += pkts[i].sent_bytes;
            last = match last {
                Some(t) if t >= pkts[i].time_sent => Some(t),
                _ => Some(pkts[i].time_sent),
            };
        }
        i += 1;
    }
    kani::assume(r.bytes_in_flight >= sum);
    let pre = snap(&r);

    r.on_packets_lost(&mut pkts.iter(), persistent);

    assert!(r.bytes_in_flight == pre.bif - sum, "bytes_in_flight drops by exactly the counted lost bytes");
    assert!(same_ce(&pre, &r));
    let new_event = match last {
        Some(t) => !in_rec(&pre, t),
        None => false,
    };
    // after the (possible) congestion event
    let (c1, s1, rec1) = if new_event {
        let s = pre.cwnd - pre.mds;
        (if s > 2 * pre.mds { s } else { 2 * pre.mds }, s, Some(now))
    } else {
        (pre.cwnd, pre.ssthresh, pre.rec)
    };
    if persistent {
        let s2 = c1 >> 1;
        assert!(r.ssthresh == s2);
        assert!(r.congestion_window == if s2 > 2 * pre.mds { s2 } else { 2 * pre.mds }, "persistent loss: halve, floor 2 datagrams");
        assert!(r.congestion_recovery_start_time.is_none());
    } else {
        assert!(r.congestion_window == c1 && r.ssthresh == s1 && r.congestion_recovery_start_time == rec1,
            "loss: one reduction iff the newest counted lost packet was sent after recovery started");
    }
    if !persistent && !new_event {
        assert!(r.congestion_window == pre.cwnd, "losses of packets sent before recovery started do not shrink again");
    }
    assert!(r.congestion_window >= 2 * pre.mds, "cwnd >= 2 datagrams");
    assert!(r.congestion_window <= pre.cwnd, "loss never grows the window");
    kani::cover!(new_event && !persistent, "new congestion event");
    kani::cover!(last.is_some() && !new_event && !persistent, "loss inside recovery");
    kani::cover!(persistent && r.congestion_window > 2 * pre.mds, "persistent halving above the floor");
    kani::cover!(last.is_none(), "no counted packet lost");
    core::mem::forget(pkts);
    core::mem::forget(r);
}

#[kani::proof]
#[kani::unwind(6)]
#[kani::stub(tokio::time::Instant::now, sym_now)]
#[kani::stub(is_symbolic_run, stub_yes)]
#[kani::stub(qevent::telemetry::macro_support::build_and_emit_event, no_emit)]
fn c13_reno_lost_n1() {
    lost_step::<1>();
}

#[kani::proof]
#[kani::unwind(6)]
#[kani::stub(tokio::time::Instant::now, sym_now)]
#[kani::stub(is_symbolic_run, stub_yes)]
#[kani::stub(qevent::telemetry::macro_support::build_and_emit_event, no_emit)]
fn c13_reno_lost_n3() {
    lost_step::<3>();
}

/// RemoveFromBytesInFlight (packet-number space discarded): PacketSpace::discard hands over exactly
/// the packets still Inflight (c13_discard_n2).
#[kani::proof]
#[kani::unwind(6)]
#[kani::stub(tokio::time::Instant::now, sym_now)]
#[kani::stub(is_symbolic_run, stub_yes)]
#[kani::stub(qevent::telemetry::macro_support::build_and_emit_event, no_emit)]
fn c13_reno_remove() {
    let now = h_start();
    let mut r = any_reno(now);
    let pkts: [SentPacket; 2] = core::array::from_fn(|_| {
        let mut p = any_pkt(now);
        p.state = State::Inflight;
        p
    });
    let mut sum = 0usize;
    let mut i = 0;
    while i < 2 {
        if pkts[i].count_for_cc {
            sum += pkts[i].sent_bytes;
        }
        i += 1;
    }
    // in-flight accounting invariant: outstanding counted packets are included in bytes_in_flight
    kani::assume(r.bytes_in_flight >= sum);
    let pre = snap(&r);
    r.remove_from_bytes_in_flight(&mut pkts.iter());
    assert!(r.bytes_in_flight == pre.bif - sum, "bytes_in_flight drops by exactly the sizes of the counted outstanding packets");
    assert!(same_except_bif(&pre, &r), "discarding a space does not touch the window");
    kani::cover!(sum > 0 && r.bytes_in_flight == 0, "everything in flight belonged to the discarded space");
    core::mem::forget(pkts);
    core::mem::forget(r);
}
