// Shared helpers of the C13 harness modules (textually `include!`d by each c13_*.rs file, so every
// harness module owns its private copy of the virtual clock).
//
// Virtual clock. Under Kani `tokio::time::Instant::now` is stubbed by `sym_now`, which returns the
// harness-owned `CLOCK`. The clock's start value is an arbitrary instant (symbolic seconds/nanos
// above a zero instant); the harness moves it forward explicitly with `h_advance` (non-decreasing).
// The stub itself draws no `kani::any()` values, so a solver counterexample replays natively
// (concrete playback runs WITHOUT stubs: there `Instant::now()` is the real clock, `h_start`
// returns the real current instant and every other instant of the scenario is derived from it
// by subtracting the same symbolic offsets).

static mut CLOCK: Option<tokio::time::Instant> = None;

/// `false` natively, `true` under Kani (stubbed by `stub_yes`): tells the helpers whether the
/// clock stub is active.
#[allow(dead_code)]
fn is_symbolic_run() -> bool {
    false
}

#[allow(dead_code)]
fn stub_yes() -> bool {
    true
}

/// Stub for `tokio::time::Instant::now`.
#[allow(dead_code)]
fn sym_now() -> tokio::time::Instant {
    unsafe { CLOCK.unwrap() }
}

const H_MIN_UPTIME_S: u64 = 4_000;
const H_MAX_UPTIME_S: u64 = 1 << 40;
/// Every instant of a scenario lies at most this far before "now".
const H_MAX_AGE_S: u64 = 3_600;

/// Start the virtual clock at an arbitrary instant and return it.
#[allow(dead_code)]
fn h_start() -> tokio::time::Instant {
    let secs: u64 = kani::any();
    let nanos: u32 = kani::any();
    kani::assume(secs >= H_MIN_UPTIME_S && secs <= H_MAX_UPTIME_S && nanos < 1_000_000_000);
    let t = if is_symbolic_run() {
        let zero: std::time::Instant = unsafe { core::mem::zeroed() };
        tokio::time::Instant::from_std(zero) + core::time::Duration::new(secs, nanos)
    } else {
        tokio::time::Instant::now()
    };
    unsafe {
        CLOCK = Some(t);
    }
    t
}

/// Move the virtual clock forward (natively: no-op; the real clock advances by itself).
#[allow(dead_code)]
fn h_advance(d: core::time::Duration) {
    unsafe {
        CLOCK = Some(CLOCK.unwrap() + d);
    }
}

/// Arbitrary duration below `max_s` seconds.
#[allow(dead_code)]
fn any_dur(max_s: u64) -> core::time::Duration {
    let secs: u64 = kani::any();
    let nanos: u32 = kani::any();
    kani::assume(secs < max_s && nanos < 1_000_000_000);
    core::time::Duration::new(secs, nanos)
}

/// Arbitrary instant in (t - H_MAX_AGE_S, t].
#[allow(dead_code)]
fn any_instant_before(t: tokio::time::Instant) -> tokio::time::Instant {
    t - any_dur(H_MAX_AGE_S)
}

/// Stub for `qevent::telemetry::macro_support::build_and_emit_event` (qlog emission). In the build
/// that is verified (`qevent` without the `telemetry` feature) the real function returns before
/// calling either closure, so the stub is behaviourally identical; it only keeps the (unreachable)
/// serde/SystemTime event-construction code out of the goto program, where it trips an internal
/// error of kani-compiler 0.68.
#[allow(dead_code)]
fn no_emit<D: qevent::BeSpecificEventData, A: FnOnce() -> D, B: FnOnce(D) -> qevent::Event>(_a: A, _b: B) {}
